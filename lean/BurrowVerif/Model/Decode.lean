/-
  Model of the offsets-topic decoder, core/internal/consumer/kafka_client.go:365-860
  (processConsumerOffsetsMessage and everything below it).  Buffers are byte lists; every Go
  `make`/string conversion driven by a wire value adds to an allocation counter; a Go run-time panic
  is an explicit outcome.  Strings are byte lists (Go strings are arbitrary bytes).
-/
import BurrowVerif.Model.Basic

namespace Burrow.Decode

abbrev Bytes := List UInt8

structure DState where
  buf   : Bytes
  alloc : Nat
  deriving Repr, DecidableEq, Inhabited

inductive DRes (α : Type) where
  | ok (a : α) (s : DState)
  | fail (s : DState)          -- Go: an `error` / non-empty `errorAt`
  | panic (s : DState)         -- Go: run-time panic (kills the process: no recover in partitionConsumer)
  deriving Repr, Inhabited

def Dec (α : Type) := DState → DRes α

instance : Monad Dec where
  pure a := fun s => .ok a s
  bind m f := fun s => match m s with
    | .ok a s' => f a s'
    | .fail s' => .fail s'
    | .panic s' => .panic s'

def failD {α} : Dec α := fun s => .fail s
def panicD {α} : Dec α := fun s => .panic s
def allocD (n : Nat) : Dec Unit := fun s => .ok () { s with alloc := s.alloc + n }
def remaining : Dec Nat := fun s => .ok s.buf.length s

/-- big-endian unsigned value of a byte list -/
def beNat : Bytes → Nat
  | [] => 0
  | b :: bs => b.toNat * 256 ^ bs.length + beNat bs

/-- two's-complement interpretation of an unsigned `bits`-bit value -/
def toSigned (bits : Nat) (n : Nat) : Int :=
  if n < 2 ^ (bits - 1) then (n : Int) else (n : Int) - (2 : Int) ^ bits

/-- `binary.Read` of an n-byte integer: all n bytes must be there -/
def readN (n : Nat) : Dec Bytes := fun s =>
  if s.buf.length < n then .fail { s with buf := [] }
  else .ok (s.buf.take n) { s with buf := s.buf.drop n }

def readI16 : Dec Int := do let bs ← readN 2; pure (toSigned 16 (beNat bs))
def readI32 : Dec Int := do let bs ← readN 4; pure (toSigned 32 (beNat bs))
def readI64 : Dec Int := do let bs ← readN 8; pure (toSigned 64 (beNat bs))

/-- `bytes.Buffer.Next(n)`: up to `n` bytes, no allocation -/
def nextN (n : Nat) : Dec Bytes := fun s =>
  .ok (s.buf.take n) { s with buf := s.buf.drop n }

/-- kafka_client.go:395 `readString` (with the repair: a length below -1 is an error, not a
    `make([]byte, negative)` panic).  Allocates `strlen` for the byte slice and `strlen` for the
    string conversion. -/
def readString : Dec Bytes := do
  let len ← readI16
  if len = -1 then pure []
  else if len < 0 then failD
  else
    allocD len.toNat
    let avail ← remaining
    if avail < len.toNat then (do let _ ← nextN avail; failD)
    else
      let bs ← nextN len.toNat
      allocD len.toNat
      pure bs

/-! ### offset commits -/

structure OffsetKey where
  group : Bytes
  topic : Bytes
  partition : Int
  deriving Repr, DecidableEq, Inhabited

/-- kafka_client.go:800 -/
def decodeOffsetKeyV0 : Dec OffsetKey := do
  let group ← readString
  let topic ← readString
  let partition ← readI32
  pure { group, topic, partition }

/-- kafka_client.go:819 (value versions 0 and 1): (offset, timestamp) -/
def decodeOffsetValueV0 : Dec (Int × Int) := do
  let offset ← readI64
  let _ ← readString
  let ts ← readI64
  pure (offset, ts)

/-- kafka_client.go:838 (value version 3) -/
def decodeOffsetValueV3 : Dec (Int × Int) := do
  let offset ← readI64
  let _ ← readI32
  let _ ← readString
  let ts ← readI64
  pure (offset, ts)

/-- the storage requests a message can produce -/
inductive Req where
  | offset (group topic : Bytes) (partition offset ts order : Int)
  | owner (group topic : Bytes) (partition : Int) (host clientID : Bytes)
  | clear (group : Bytes)
  | deleteGroup (group : Bytes)
  deriving Repr, DecidableEq, Inhabited

def Req.group : Req → Bytes
  | .offset g .. => g | .owner g .. => g | .clear g => g | .deleteGroup g => g

/-! ### group metadata -/

/-- kafka_client.go:632 / :655 — returns the protocol type -/
def decodeMetadataHeader (v2 : Bool) : Dec Bytes := do
  let protocolType ← readString
  let _ ← readI32
  let _ ← readString
  let _ ← readString
  if v2 then (do let _ ← readI64; pure ()) else pure ()
  pure protocolType

/-- Go map assignment `topics[name] = …` -/
def mapSet (name : Bytes) (ps : List Int) : List (Bytes × List Int) → List (Bytes × List Int)
  | [] => [(name, ps)]
  | (n, q) :: rest => if n = name then (name, ps) :: rest else (n, q) :: mapSet name ps rest

/-- the partition loop of `decodeMemberAssignmentV0` -/
def readPartitions : Nat → Dec (List Int)
  | 0 => pure []
  | n + 1 => do
    let p ← readI32
    let rest ← readPartitions n
    pure (p :: rest)

/-- the topic loop of `decodeMemberAssignmentV0`.  With the repair: a negative partition count is
    a decode error, and the partition slice is pre-sized by what the remaining bytes could hold,
    never by the wire count alone. -/
def readTopics : Nat → List (Bytes × List Int) → Dec (List (Bytes × List Int))
  | 0, acc => pure acc
  | n + 1, acc => do
    let name ← readString
    let numPartitions ← readI32
    if numPartitions < 0 then failD
    else
      let avail ← remaining
      allocD (4 * min numPartitions.toNat (avail / 4))
      let ps ← readPartitions numPartitions.toNat
      readTopics n (mapSet name ps acc)

/-- bytes charged per pre-sized map bucket entry -/
def mapEntryCost : Nat := 48

/-- kafka_client.go:756 `decodeMemberAssignmentV0`.  A negative topic count runs the loop zero
    times (as before the repair); the map is pre-sized by `max 0 (min count remaining)`. -/
def decodeMemberAssignmentV0 : Dec (List (Bytes × List Int)) := do
  let numTopics ← readI32
  let avail ← remaining
  allocD (mapEntryCost * min numTopics.toNat avail)
  let topics ← readTopics numTopics.toNat []
  let userDataLen ← readI32
  if userDataLen > 0 then (do let _ ← nextN userDataLen.toNat; pure ()) else pure ()
  pure topics

structure Member where
  clientID : Bytes
  host : Bytes
  assignment : List (Bytes × List Int)
  deriving Repr, DecidableEq, Inhabited

/-- run a decoder on a separate buffer (`bytes.NewBuffer(assignmentData)`), keeping the allocation
    count; the outer buffer is unaffected -/
def onBuffer {α} (data : Bytes) (d : Dec α) : Dec α := fun s =>
  match d { buf := data, alloc := s.alloc } with
  | .ok a s' => .ok a { s with alloc := s'.alloc }
  | .fail s' => .fail { s with alloc := s'.alloc }
  | .panic s' => .panic { s with alloc := s'.alloc }

/-- kafka_client.go:689 `decodeMetadataMember` -/
def decodeMetadataMember (version : Int) : Dec Member := do
  let _ ← readString                                   -- member id
  if version = 3 then (do let _ ← readString; pure ()) else pure ()   -- group instance id
  let clientID ← readString
  let host ← readString
  if version ≥ 1 then (do let _ ← readI32; pure ()) else pure ()      -- rebalance timeout
  let _ ← readI32                                      -- session timeout
  let subscriptionBytes ← readI32
  if subscriptionBytes > 0 then (do let _ ← nextN subscriptionBytes.toNat; pure ()) else pure ()
  let assignmentBytes ← readI32
  if assignmentBytes > 0 then do
    let data ← nextN assignmentBytes.toNat
    let assignment ← onBuffer data (do
      let cpv ← readI16
      if cpv < 0 then failD else decodeMemberAssignmentV0)
    pure { clientID, host, assignment }
  else
    pure { clientID, host, assignment := [] }

def ownerReqs (group : Bytes) (m : Member) : List Req :=
  m.assignment.flatMap fun (topic, ps) => ps.map fun p => Req.owner group topic p m.host m.clientID

/-- size charged for each storage request handed to the channel -/
def reqCost : Nat := 160

/-- the member loop of `decodeAndSendGroupMetadata` (kafka_client.go:606-629): requests of the
    members decoded so far are already sent when a later member fails -/
def membersLoop (version : Int) (group : Bytes) : Nat → DState → List Req → List Req × DRes Unit
  | 0, s, acc => (acc, .ok () s)
  | n + 1, s, acc =>
    match decodeMetadataMember version s with
    | .ok m s' =>
      let rs := ownerReqs group m
      membersLoop version group n { s' with alloc := s'.alloc + reqCost * rs.length } (acc ++ rs)
    | .fail s' => (acc, .fail s')
    | .panic s' => (acc, .panic s')

/-- result of processing one message -/
structure Outcome where
  reqs    : List Req
  alloc   : Nat
  panicked : Bool
  deriving Repr, DecidableEq, Inhabited

def consumerBytes : Bytes := "consumer".toUTF8.toList

/-- kafka_client.go:558 `decodeAndSendGroupMetadata` -/
def decodeAndSendGroupMetadata (version : Int) (group : Bytes) (s : DState) : Outcome :=
  match decodeMetadataHeader (version = 2 ∨ version = 3) s with
  | .panic s' => { reqs := [], alloc := s'.alloc, panicked := true }
  | .fail s' => { reqs := [], alloc := s'.alloc, panicked := false }
  | .ok protocolType s' =>
    if protocolType ≠ consumerBytes then { reqs := [], alloc := s'.alloc, panicked := false }
    else
      match readI32 s' with
      | .panic s'' => { reqs := [], alloc := s''.alloc, panicked := true }
      | .fail s'' => { reqs := [], alloc := s''.alloc, panicked := false }
      | .ok memberCount s'' =>
        if memberCount = 0 then { reqs := [.clear group], alloc := s''.alloc + reqCost, panicked := false }
        else
          -- a negative count runs the loop zero times; a positive one stops at the first member
          -- that does not decode, so the buffer length bounds the iterations
          match membersLoop version group (min memberCount.toNat (s''.buf.length + 1)) s'' [] with
          | (reqs, .panic s3) => { reqs, alloc := s3.alloc, panicked := true }
          | (reqs, .fail s3) => { reqs, alloc := s3.alloc, panicked := false }
          | (reqs, .ok _ s3) => { reqs, alloc := s3.alloc, panicked := false }

/-- the consumer module's own allow/deny decision for a group (oracle: regexp matching) -/
abbrev Accept := Bytes → Bool

/-- kafka_client.go:506 `decodeGroupMetadata` (with the repair: the reader's allow/deny lists are
    consulted on the metadata path as well) -/
def decodeGroupMetadata (accept : Accept) (keyRest value : Bytes) : Outcome :=
  match readString { buf := keyRest, alloc := 0 } with
  | .panic s => { reqs := [], alloc := s.alloc, panicked := true }
  | .fail s => { reqs := [], alloc := s.alloc, panicked := false }
  | .ok group s =>
    if !accept group then { reqs := [], alloc := s.alloc, panicked := false }
    else if value.length = 0 then { reqs := [.deleteGroup group], alloc := s.alloc + reqCost, panicked := false }
    else
      match readI16 { buf := value, alloc := s.alloc } with
      | .panic s' => { reqs := [], alloc := s'.alloc, panicked := true }
      | .fail s' => { reqs := [], alloc := s'.alloc, panicked := false }
      | .ok version s' =>
        if version = 0 ∨ version = 1 ∨ version = 2 ∨ version = 3 then decodeAndSendGroupMetadata version group s'
        else { reqs := [], alloc := s'.alloc, panicked := false }

/-- kafka_client.go:423 `decodeKeyAndOffset` + :478 `decodeAndSendOffset` -/
def decodeKeyAndOffset (accept : Accept) (order : Int) (keyRest value : Bytes) : Outcome :=
  match decodeOffsetKeyV0 { buf := keyRest, alloc := 0 } with
  | .panic s => { reqs := [], alloc := s.alloc, panicked := true }
  | .fail s => { reqs := [], alloc := s.alloc, panicked := false }
  | .ok key s =>
    if !accept key.group then { reqs := [], alloc := s.alloc, panicked := false }
    else if value.length = 0 then { reqs := [], alloc := s.alloc, panicked := false }
    else
      match readI16 { buf := value, alloc := s.alloc } with
      | .panic s' => { reqs := [], alloc := s'.alloc, panicked := true }
      | .fail s' => { reqs := [], alloc := s'.alloc, panicked := false }
      | .ok version s' =>
        let dec : Option (Dec (Int × Int)) :=
          if version = 0 ∨ version = 1 then some decodeOffsetValueV0
          else if version = 3 then some decodeOffsetValueV3 else none
        match dec with
        | none => { reqs := [], alloc := s'.alloc, panicked := false }
        | some d =>
          match d s' with
          | .panic s'' => { reqs := [], alloc := s''.alloc, panicked := true }
          | .fail s'' => { reqs := [], alloc := s''.alloc, panicked := false }
          | .ok (offset, ts) s'' =>
            { reqs := [.offset key.group key.topic key.partition offset ts order],
              alloc := s''.alloc + reqCost, panicked := false }

/-- kafka_client.go:365 `processConsumerOffsetsMessage`; `order` is the message's own offset in
    the offsets topic -/
def processMessage (accept : Accept) (order : Int) (key value : Bytes) : Outcome :=
  match readI16 { buf := key, alloc := 0 } with
  | .panic s => { reqs := [], alloc := s.alloc, panicked := true }
  | .fail s => { reqs := [], alloc := s.alloc, panicked := false }
  | .ok keyver s =>
    if keyver = 0 ∨ keyver = 1 then decodeKeyAndOffset accept order s.buf value
    else if keyver = 2 then decodeGroupMetadata accept s.buf value
    else { reqs := [], alloc := s.alloc, panicked := false }

end Burrow.Decode
