/-
  The configuration phase of the in-memory storage module (inmemory.go `Configure`): the settings and
  the group lists the module ends up with, from its `[storage.<name>]` table.  Core Lean only.
-/
namespace Burrow.StorageConf

/-- a list key of the table: absent, present with the empty string, or a pattern — whose verdict on a
    group name is an oracle bit (Go's regexp engine) -/
inductive ListKey where
  | absent
  | empty
  | pattern (verdict : String → Bool)

/-- the table as the operator wrote it (`none` = key absent) -/
structure Spec where
  intervals   : Option Int
  expireGroup : Option Int
  minDistance : Option Int
  workers     : Option Int
  queueDepth  : Option Int
  allow       : ListKey
  deny        : ListKey

structure Settings where
  intervals   : Int
  expireGroup : Int
  minDistance : Int
  workers     : Int
  queueDepth  : Int
  deriving Repr, DecidableEq

/-- defaults: 10 intervals, groups expire after 7 days, no minimum distance, 20 workers, queue depth 1 -/
def Spec.settings (s : Spec) : Settings :=
  { intervals := s.intervals.getD 10, expireGroup := s.expireGroup.getD 604800, minDistance := s.minDistance.getD 0,
    workers := s.workers.getD 20, queueDepth := s.queueDepth.getD 1 }

/-- the list a key gives the module: the empty string means NO list, like an absent key -/
def ListKey.list : ListKey → Option (String → Bool)
  | .absent => none
  | .empty => none
  | .pattern m => some m

/-- `acceptConsumerGroup` with the lists `Configure` compiled: tracked iff the allowlist (if there is one)
    matches and the denylist (if there is one) does not -/
def Spec.accepts (s : Spec) (group : String) : Bool :=
  (match s.allow.list with | none => true | some m => m group) &&
  (match s.deny.list with | none => true | some m => !m group)

end Burrow.StorageConf
