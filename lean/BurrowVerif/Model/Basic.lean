/-
  Shared basic types of the Burrow model.  Core Lean only (no Mathlib): everything under
  `BurrowVerif/Model` and `BurrowVerif/Spec` is linked into the `bvdriver` executable.
-/
namespace Burrow

/-- `protocol.StatusConstant` (core/protocol/evaluator.go); numeric values pinned against the
    source by `Generated/Constants.lean`. -/
inductive Status where
  | notFound | ok | warn | err | stop | stall | rewind
  deriving Repr, DecidableEq, Inhabited

namespace Status

def toNat : Status → Nat
  | notFound => 0 | ok => 1 | warn => 2 | err => 3 | stop => 4 | stall => 5 | rewind => 6

def ofNat? : Nat → Option Status
  | 0 => some notFound | 1 => some ok | 2 => some warn | 3 => some err
  | 4 => some stop | 5 => some stall | 6 => some rewind | _ => none

def name : Status → String
  | notFound => "NOTFOUND" | ok => "OK" | warn => "WARN" | err => "ERR"
  | stop => "STOP" | stall => "STALL" | rewind => "REWIND"

theorem ofNat_toNat (s : Status) : ofNat? s.toNat = some s := by cases s <;> rfl

theorem toNat_injective {a b : Status} (h : a.toNat = b.toNat) : a = b := by
  cases a <;> cases b <;> simp [toNat] at h <;> rfl

instance : LE Status := ⟨fun a b => a.toNat ≤ b.toNat⟩
instance : LT Status := ⟨fun a b => a.toNat < b.toNat⟩
instance (a b : Status) : Decidable (a ≤ b) := inferInstanceAs (Decidable (a.toNat ≤ b.toNat))
instance (a b : Status) : Decidable (a < b) := inferInstanceAs (Decidable (a.toNat < b.toNat))

end Status

/-- The int64 range, as an explicit predicate (offsets, positions, timestamps are `Int` in the
    model; theorems that depend on absence of wrap-around carry `I64` hypotheses). -/
def I64 (x : Int) : Prop := -(2:Int)^63 ≤ x ∧ x < (2:Int)^63

instance (x : Int) : Decidable (I64 x) := inferInstanceAs (Decidable (_ ∧ _))

/-- Go's `uint64(x)` for an int64 `x` (two's complement reinterpretation). -/
def toU64 (x : Int) : Nat := (x % (2:Int)^64).toNat

/-- Go's int64 wrap-around of a mathematical integer. -/
def wrap64 (x : Int) : Int := (x + (2:Int)^63) % (2:Int)^64 - (2:Int)^63

/-- Go's uint64 wrap-around of a natural number. -/
def wrapU64 (x : Nat) : Nat := x % 2^64

/-- `protocol.ConsumerOffset` without `ObservedTimestamp` (a `time.Now()` reading that no property
    constrains).  `order` is the position of the commit in the offsets log; `lag = none` is Go's
    `Lag == nil`. -/
structure Commit where
  offset : Int
  order  : Int
  ts     : Int
  lag    : Option Nat
  deriving Repr, DecidableEq, Inhabited

end Burrow
