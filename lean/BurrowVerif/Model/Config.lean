/-
  Model of Burrow's start-up configuration phase (core/burrow.go newCoordinators /
  configureCoordinators / Start, and every coordinator's and module's Configure).

  A configuration is modelled by the FACTS the checks look at (which keys are present, whether a
  referenced cluster or profile exists, how many modules of a kind there are, class names) plus
  oracle bits for what library code decides (does this pattern compile, does this template parse,
  is this host:port list well-formed, does this PEM pair load).  Each Configure is the ordered
  chain of its checks; the first failing check is the panic that reaches the recover handler.
  Core Lean only.
-/
namespace Burrow.Config

/-- the validation sites (one per panic site reachable from a Configure) -/
inductive Check where
  | Z1 | Z2 | Z3
  | S1 | S2 | S3 | S4 | S5 | S6
  | E1 | E2 | E3
  | H1 | H2 | H3 | H4
  | N1 | N2 | N3 | N4 | N5 | N6 | NH1 | NH2 | NH3 | NE1 | NE2 | NE3 | NE4 | NE5
  | C1 | P1 | P2 | P3 | P4 | C3 | C4
  | K1 | K2 | KC3 | KC4 | KC5 | KC6 | KC7 | KZ1 | KZ2 | KZ3 | KZ4 | KZ5 | KZ6
  deriving DecidableEq, Repr, Inhabited

/-- the dynamic type of the value the site panics with (default zap logger): everything is a
    `string` except the run-time error of `make(chan, negative)` -/
def Check.isString : Check → Bool
  | .S3 => false
  | _ => true

structure Tls where
  caSet      : Bool   -- tls.<t>.cafile non-empty
  caReadable : Bool
  certKeySet : Bool   -- certfile and keyfile both non-empty
  pairLoads  : Bool
  deriving DecidableEq, Repr, Inhabited

structure Zk where
  serversN  : Nat
  serversOk : Bool
  rootOk    : Bool
  deriving DecidableEq, Repr, Inhabited

structure Storage where
  cls          : String
  queueDepthOk : Bool
  legacy       : Bool   -- group-whitelist / group-blacklist present
  allowOk      : Bool   -- allowlist empty or compiles
  denyOk       : Bool
  deriving DecidableEq, Repr, Inhabited

structure Evaluator where
  cls      : String
  expireOk : Bool
  deriving DecidableEq, Repr, Inhabited

structure Listener where
  addrOk : Bool
  tls    : Option Tls
  deriving DecidableEq, Repr, Inhabited

structure Notifier where
  legacy      : Bool
  allowOk     : Bool
  denyOk      : Bool
  tmplOpenOk  : Bool
  sendClose   : Bool
  tmplCloseOk : Bool
  cls         : String
  urlOpen     : Bool   -- non-empty
  urlClose    : Bool
  extraCaOk   : Bool   -- not (extra-ca set ∧ ¬noverify ∧ unreadable)
  serverOk    : Bool
  fromSet     : Bool
  toSet       : Bool
  authOk      : Bool
  deriving DecidableEq, Repr, Inhabited

structure Profile where
  named     : Bool   -- a non-empty profile name is referenced
  known     : Bool   -- client-profile.<p> is set
  versionOk : Bool
  tls       : Option Tls
  deriving DecidableEq, Repr, Inhabited

structure Cluster where
  cls       : String
  profile   : Profile
  serversN  : Nat
  serversOk : Bool
  deriving DecidableEq, Repr, Inhabited

structure Consumer where
  clusterKnown : Bool
  cls          : String
  profile      : Profile
  serversN     : Nat
  serversOk    : Bool
  zkPathOk     : Bool
  legacy       : Bool
  allowOk      : Bool
  denyOk       : Bool
  deriving DecidableEq, Repr, Inhabited

structure Config where
  haveNotifiers : Bool    -- viper.IsSet("notifier")
  zk            : Zk
  storage       : List Storage
  evaluator     : List Evaluator
  listeners     : List Listener
  notifiers     : List Notifier
  clusters      : List Cluster
  consumers     : List Consumer
  deriving DecidableEq, Repr, Inhabited

/-- a chain of checks: (fails?, site); the first failing one fires -/
abbrev Chain := List (Bool × Check)

def firstFail : Chain → Option Check
  | [] => none
  | (true, c) :: _ => some c
  | (false, _) :: rest => firstFail rest

def zkChain (z : Zk) : Chain :=
  [(z.serversN == 0, .Z1), (z.serversN != 0 && !z.serversOk, .Z2), (!z.rootOk, .Z3)]

def storageChain (m : Storage) : Chain :=
  [(m.cls != "inmemory", .S2), (!m.queueDepthOk, .S3), (m.legacy, .S4), (!m.allowOk, .S5), (!m.denyOk, .S6)]

def evaluatorChain (m : Evaluator) : Chain :=
  [(m.cls != "caching", .E2), (!m.expireOk, .E3)]

def listenerChain (l : Listener) : Chain :=
  (!l.addrOk, .H1) ::
  match l.tls with
  | none => []
  | some t => [(t.caSet && !t.caReadable, .H2), (!t.certKeySet, .H3), (!t.pairLoads, .H4)]

def profileChain (p : Profile) : Chain :=
  [(p.named && !p.known, .P1), (!p.versionOk, .P2)] ++
  match p.tls with
  | none => []
  | some t => [(t.caSet && !t.caReadable, .P3), (t.caSet && t.certKeySet && !t.pairLoads, .P4)]

def notifierChain (m : Notifier) : Chain :=
  [(m.legacy, .N1), (!m.allowOk, .N2), (!m.denyOk, .N3), (!m.tmplOpenOk, .N4), (m.sendClose && !m.tmplCloseOk, .N5),
   (m.cls != "http" && m.cls != "email" && m.cls != "null", .N6)] ++
  (if m.cls == "http" then [(!m.urlOpen, .NH1), (m.sendClose && !m.urlClose, .NH2), (!m.extraCaOk, .NH3)]
   else if m.cls == "email" then [(!m.serverOk, .NE1), (!m.fromSet, .NE2), (!m.toSet, .NE3), (!m.authOk, .NE4), (!m.extraCaOk, .NE5)]
   else [])

def clusterChain (m : Cluster) : Chain :=
  [(m.cls != "kafka", .C1)] ++ profileChain m.profile ++
  [(m.serversN == 0, .C3), (m.serversN != 0 && !m.serversOk, .C4)]

def consumerChain (m : Consumer) : Chain :=
  [(!m.clusterKnown, .K1), (m.cls != "kafka" && m.cls != "kafka_zk", .K2)] ++
  (if m.cls == "kafka" then
    profileChain m.profile ++
    [(m.serversN == 0, .KC3), (m.serversN != 0 && !m.serversOk, .KC4), (m.legacy, .KC5), (!m.allowOk, .KC6), (!m.denyOk, .KC7)]
   else if m.cls == "kafka_zk" then
    [(m.serversN == 0, .KZ1), (m.serversN != 0 && !m.serversOk, .KZ2), (!m.zkPathOk, .KZ3), (m.legacy, .KZ4),
     (!m.allowOk, .KZ5), (!m.denyOk, .KZ6)]
   else [])

/-- the whole configuration phase, in the order newCoordinators creates the coordinators -/
def chain (c : Config) : Chain :=
  (if c.haveNotifiers then zkChain c.zk else []) ++
  ((decide (c.storage.length > 1), .S1) :: c.storage.flatMap storageChain) ++
  ((decide (c.evaluator.length > 1), .E1) :: c.evaluator.flatMap evaluatorChain) ++
  c.listeners.flatMap listenerChain ++
  (if c.haveNotifiers then c.notifiers.flatMap notifierChain else []) ++
  c.clusters.flatMap clusterChain ++
  c.consumers.flatMap consumerChain

/-- `configureCoordinators` up to the recover handler: the site whose panic reaches it, if any
    (modules of one kind taken in the listed order) -/
def configure (c : Config) : Option Check := firstFail (chain c)

/-! #### which site a refusal may name

Each coordinator configures its modules by ranging over a Go map (`viper.GetStringMap`), i.e. in an
arbitrary order: when several modules of one kind are invalid, the refusal names the first failing
site of whichever of them comes first.  `configureSites` is the set of sites the refusal may name. -/

/-- one coordinator: checks made in a fixed order, then its modules in arbitrary order -/
structure Seg where
  pre  : Chain
  mods : List Chain

def Seg.flat (s : Seg) : Chain := s.pre ++ s.mods.flatten

def Seg.sites (s : Seg) : List Check :=
  match firstFail s.pre with
  | some x => [x]
  | none => s.mods.filterMap firstFail

def segs (c : Config) : List Seg :=
  [⟨if c.haveNotifiers then zkChain c.zk else [], []⟩,
   ⟨[(decide (c.storage.length > 1), .S1)], c.storage.map storageChain⟩,
   ⟨[(decide (c.evaluator.length > 1), .E1)], c.evaluator.map evaluatorChain⟩,
   ⟨[], c.listeners.map listenerChain⟩,
   ⟨[], if c.haveNotifiers then c.notifiers.map notifierChain else []⟩,
   ⟨[], c.clusters.map clusterChain⟩,
   ⟨[], c.consumers.map consumerChain⟩]

def sitesOf : List Seg → List Check
  | [] => []
  | s :: rest => if s.sites.isEmpty then sitesOf rest else s.sites

def configureSites (c : Config) : List Check := sitesOf (segs c)

/-! ### the recover handler and `Start` -/

inductive Result where
  | returned (code : Nat)
  | crashed                 -- a panic escapes `Start` into its caller
  deriving DecidableEq, Repr, Inhabited

structure Outcome where
  result  : Result
  /-- coordinators whose `Start` has been called -/
  started : Nat
  deriving DecidableEq, Repr, Inhabited

/-- the original handler: `app.Logger.Panic(r.(string)); app.ConfigurationValid = false` — the type
    assertion panics for a non-string value, and zap's `Panic` logs and then panics again: either way
    a panic leaves the deferred function, `ConfigurationValid = false` is never executed -/
def handlerOld (_site : Check) : Option Bool := none      -- no flag value: the handler itself panics

/-- the repaired handler logs the value with `Error` and sets `ConfigurationValid = false` -/
def handlerNew (_site : Check) : Option Bool := some false

/-- `Start` (burrow.go:143-): configure; return 1 if the configuration is not valid; otherwise start
    the coordinators in order (`startFails = some i`: the i-th coordinator's Start returns an error) -/
def start (handler : Check → Option Bool) (c : Config) (nCoordinators : Nat) (startFails : Option Nat) : Outcome :=
  match configure c with
  | some site =>
    match handler site with
    | none => { result := .crashed, started := 0 }
    | some valid => if valid then { result := .returned 0, started := nCoordinators } else { result := .returned 1, started := 0 }
  | none =>
    match startFails with
    | some i => { result := .returned 1, started := min (i + 1) nCoordinators }
    | none => { result := .returned 0, started := nCoordinators }


/-- `ApplicationContext.ConfigurationValid` after `configureCoordinators` (burrow.go), as a function of the
    value the context carried in (an embedding application may call `Start` on the context of an earlier
    run): the deferred handler ASSIGNS false on a panic, the normal path assigns true -/
def flagAfter (_prior : Bool) (c : Config) : Bool :=
  match configure c with
  | some _ => false
  | none => true

end Burrow.Config
