/-
  Model of Burrow's HTTP API (core/internal/httpserver): request routing over the route table
  (which is GENERATED from coordinator.go — `Generated/Http.lean`), the handlers of kafka.go and
  config.go as functions of a backend (storage, evaluator, configuration), the response envelope of
  writeResponse / writeErrorResponse, and the Prometheus scrape of prometheus.go.

  `httprouter` is modelled by its documented contract (segment-wise matching of static and `:param`
  segments, trailing-slash and fixed-path redirects, 405 / automatic OPTIONS); the contract is
  validated differentially, not verified.  Core Lean only.
-/
import BurrowVerif.Model.Storage
import BurrowVerif.Model.Group

namespace Burrow.Http
open Burrow

/-! ### routing -/

inductive Seg where
  | lit (s : String)
  | param (name : String)
  deriving DecidableEq, Repr, Inhabited

structure Route where
  method  : String
  pattern : List Seg
  handler : String
  deriving DecidableEq, Repr, Inhabited

/-- "/a/b" ↦ ["a","b"]; "/a/" ↦ ["a",""]; "/" ↦ [""] -/
def splitPath (path : String) : List String := (path.splitOn "/").drop 1

def joinPath (segs : List String) : String := "/" ++ "/".intercalate segs

abbrev Params := List (String × String)

def matchSegs : List Seg → List String → Option Params
  | [], [] => some []
  | .lit s :: ps, x :: xs => if s == x then matchSegs ps xs else none
  | .param n :: ps, x :: xs =>
    if x.isEmpty then none else
    match matchSegs ps xs with
    | some rest => some ((n, x) :: rest)
    | none => none
  | _, _ => none

def lookupRoute (routes : List Route) (method : String) (segs : List String) : Option (Route × Params) :=
  routes.findSome? fun r =>
    if r.method == method then (matchSegs r.pattern segs).map fun ps => (r, ps) else none

/-- static segments compared case-insensitively; yields the path spelled as the route spells it -/
def matchSegsCI : List Seg → List String → Option (List String)
  | [], [] => some []
  | .lit s :: ps, x :: xs =>
    if s.toLower == x.toLower then (matchSegsCI ps xs).map (s :: ·) else none
  | .param _ :: ps, x :: xs =>
    if x.isEmpty then none else (matchSegsCI ps xs).map (x :: ·)
  | _, _ => none

def lookupCI (routes : List Route) (method : String) (segs : List String) : Option (List String) :=
  routes.findSome? fun r => if r.method == method then matchSegsCI r.pattern segs else none

/-- `httprouter.CleanPath` on segments: drop empty and "." segments, resolve "..", keep a trailing slash -/
def cleanSegs (segs : List String) : List String :=
  let trailing := segs.getLast? == some "" || segs.getLast? == some "." || segs.getLast? == some ".."
  let body := segs.foldl (fun (acc : List String) s =>
    if s == "" || s == "." then acc
    else if s == ".." then acc.dropLast
    else acc ++ [s]) []
  if body.isEmpty then [""] else if trailing then body ++ [""] else body

def hasTree (routes : List Route) (method : String) : Bool := routes.any (·.method == method)

def methodsOf (routes : List Route) : List String :=
  routes.foldl (fun acc r => if acc.contains r.method then acc else acc ++ [r.method]) []

/-- `Router.allowed` for a concrete path -/
def insertStr (x : String) : List String → List String
  | [] => [x]
  | y :: ys => if x < y then x :: y :: ys else y :: insertStr x ys

def allowed (routes : List Route) (segs : List String) (reqMethod : String) : List String :=
  let ms := (methodsOf routes).filter fun m =>
    m != reqMethod && m != "OPTIONS" && (lookupRoute routes m segs).isSome
  -- httprouter appends OPTIONS and sorts
  if ms.isEmpty then [] else (ms ++ ["OPTIONS"]).foldl (fun acc m => insertStr m acc) []

inductive Outcome where
  | handler (name : String) (params : Params)
  | redirect (code : Nat) (location : String)
  | options (allow : List String)
  | notAllowed (allow : List String)
  | notFound
  deriving DecidableEq, Repr, Inhabited

/-- `Router.ServeHTTP` with httprouter's defaults (RedirectTrailingSlash, RedirectFixedPath,
    HandleMethodNotAllowed, HandleOPTIONS all on) -/
def routeSegs (routes : List Route) (method : String) (segs : List String) : Outcome :=
  let direct : Option Outcome :=
    if hasTree routes method then
      match lookupRoute routes method segs with
      | some (r, ps) => some (.handler r.handler ps)
      | none =>
        if method != "CONNECT" && segs != [""] then
          let code := if method == "GET" then 301 else 307
          -- trailing slash recommendation (no registered pattern ends in a slash)
          if segs.getLast? == some "" && (lookupRoute routes method segs.dropLast).isSome then
            some (.redirect code (joinPath segs.dropLast))
          else
            let cs := cleanSegs segs
            match lookupCI routes method cs with
            | some fixed => some (.redirect code (joinPath fixed))
            | none =>
              if cs.getLast? == some "" then
                (lookupCI routes method cs.dropLast).map fun fixed => .redirect code (joinPath fixed)
              else none
        else none
    else none
  match direct with
  | some o => o
  | none =>
    if method == "OPTIONS" then
      let a := allowed routes segs "OPTIONS"
      if a.isEmpty then .notFound else .options a
    else
      let a := allowed routes segs method
      if a.isEmpty then .notFound else .notAllowed a

def route (routes : List Route) (method path : String) : Outcome := routeSegs routes method (splitPath path)

/-! ### configuration (viper) -/

inductive CfgVal where
  | str (s : String)
  | int (i : Int)
  | bool (b : Bool)
  | list (l : List String)
  /-- an empty table (`[cluster.x]` with nothing in it): set, but holds nothing -/
  | table
  deriving DecidableEq, Repr, Inhabited

/-- flattened configuration: leaf path ↦ value.  A path is the list of the RAW (lower-cased) keys from
    the top of viper's nested map down to the leaf; a raw key may itself contain dots
    (`[notifier."a.b"]`). -/
abbrev Cfg := List (List String × CfgVal)

/-- `strings.Split(key, ".")` on characters; `cur` is the current segment, reversed -/
def splitDots : List Char → List Char → List (List Char)
  | [], cur => [cur.reverse]
  | c :: cs, cur => if c = '.' then cur.reverse :: splitDots cs [] else splitDots cs (c :: cur)

/-- viper key → path: split at ".", lower-case -/
def keyPath (key : String) : List String := (splitDots key.toList []).map fun cs => (String.ofList cs).toLower

def Cfg.isSet (c : Cfg) (p : List String) : Bool := c.any fun e => p.isPrefixOf e.1

def Cfg.get (c : Cfg) (p : List String) : Option CfgVal := c.lookup p

def Cfg.getString (c : Cfg) (p : List String) : String :=
  match c.get p with
  | some (.str s) => s
  | some (.int i) => toString i
  | some (.bool b) => if b then "true" else "false"
  | _ => ""

def Cfg.getInt (c : Cfg) (p : List String) : Int :=
  match c.get p with
  | some (.int i) => i
  | some (.str s) => s.toInt?.getD 0
  | _ => 0

def Cfg.getBool (c : Cfg) (p : List String) : Bool :=
  match c.get p with
  | some (.bool b) => b
  | some (.str s) => s == "true" || s == "1"
  | some (.int i) => i != 0
  | _ => false

def Cfg.getSlice (c : Cfg) (p : List String) : List String :=
  match c.get p with
  | some (.list l) => l
  | _ => []

/-- the key directly under `p` on the way to leaf `q` -/
def childOf (p q : List String) : Option String :=
  if p.isPrefixOf q then (q.drop p.length).head? else none

/-- remove later duplicates (first-occurrence order) -/
def dedupKeep : List String → List String
  | [] => []
  | x :: xs => x :: (dedupKeep xs).filter (· != x)

/-- names of the entries directly under `p` (`viper.GetStringMap(p)` keys) -/
def Cfg.children (c : Cfg) (p : List String) : List String :=
  dedupKeep (c.filterMap fun e => childOf p e.1)

/-- leaf `q`, if it sits directly under `p`: its last key and its value as a string -/
def Cfg.leafEntry (c : Cfg) (p q : List String) : Option (String × String) :=
  if p.isPrefixOf q then
    match q.drop p.length with
    | [k] => some (k, c.getString q)
    | k :: _ => some (k, "")
    | [] => none
  else none

/-- remove later entries with the same key -/
def dedupKeys : List (String × String) → List (String × String)
  | [] => []
  | x :: xs => x :: (dedupKeys xs).filter (·.1 != x.1)

/-- `viper.GetStringMapString` of node `p`: one entry per key directly under `p`; a leaf shows its
    value as a string, a nested table shows as "" (`cast.ToString` of a map) -/
def Cfg.leavesUnder (c : Cfg) (p : List String) : List (String × String) :=
  dedupKeys (c.filterMap fun e => c.leafEntry p e.1)

/-! #### how viper resolves a dotted key when raw keys contain dots

`viper.find` → `searchIndexableWithPathPrefixes`: at every level it tries to match the LONGEST prefix
of the remaining key components, joined by ".", against the keys of the current table, descends when
that is a table and backtracks to shorter prefixes when the descent finds nothing.  The functions
above (`isSet`, `get…`, `children`, `leavesUnder`) take the RAW path of a node; `Cfg.norm` computes
the raw path viper ends up at for a dotted key, and the `v…` functions are what the handlers call. -/

def Cfg.isLeaf (c : Cfg) (p : List String) : Bool :=
  match c.get p with
  | some .table => false
  | some _ => true
  | none => false

/-- `strings.Join(l, ".")` on characters -/
def joinDots : List String → List Char
  | [] => []
  | [x] => x.toList
  | x :: y :: rest => x.toList ++ '.' :: joinDots (y :: rest)

/-- one attempt of the prefix loop: the first `i` components of `q`, joined, as a key of node `P` -/
def Cfg.attempt (c : Cfg) (rec : List String → List String → Option (List String)) (P q : List String) (i : Nat) :
    Option (List String) :=
  let key := String.ofList (joinDots (q.take i))
  if (c.children P).contains key then
    if i = q.length then some (P ++ [key])
    else if c.isLeaf (P ++ [key]) then none
    else rec (P ++ [key]) (q.drop i)
  else none

/-- the prefix loop: `i`, `i-1`, …, 1 -/
def Cfg.tryPrefixes (c : Cfg) (rec : List String → List String → Option (List String)) (P q : List String) :
    Nat → Option (List String)
  | 0 => none
  | i + 1 =>
    match c.attempt rec P q (i + 1) with
    | some r => some r
    | none => c.tryPrefixes rec P q i

/-- `searchIndexableWithPathPrefixes` from node `P` for the remaining components `q` (fuel ≥ |q|) -/
def Cfg.search (c : Cfg) : Nat → List String → List String → Option (List String)
  | 0, P, q => if q.isEmpty then some P else none
  | fuel + 1, P, q => if q.isEmpty then some P else c.tryPrefixes (c.search fuel) P q q.length

/-- the raw path of the node a dotted key resolves to -/
def Cfg.resolve (c : Cfg) (q : List String) : Option (List String) := c.search q.length [] q

/-- … or the key's own components when it resolves to nothing (then nothing is found there either) -/
def Cfg.norm (c : Cfg) (q : List String) : List String := (c.resolve q).getD q

def Cfg.vSet (c : Cfg) (q : List String) : Bool := c.isSet (c.norm q)
def Cfg.vString (c : Cfg) (q : List String) : String := c.getString (c.norm q)
def Cfg.vInt (c : Cfg) (q : List String) : Int := c.getInt (c.norm q)
def Cfg.vBool (c : Cfg) (q : List String) : Bool := c.getBool (c.norm q)
def Cfg.vSlice (c : Cfg) (q : List String) : List String := c.getSlice (c.norm q)
def Cfg.vChildren (c : Cfg) (q : List String) : List String := c.children (c.norm q)
def Cfg.vLeaves (c : Cfg) (q : List String) : List (String × String) := c.leavesUnder (c.norm q)

/-! ### responses -/

inductive FieldVal where
  | s (v : String) | i (v : Int) | b (v : Bool) | l (v : List String) | m (v : List (String × String)) | null
  deriving DecidableEq, Repr, Inhabited

inductive Payload where
  | none
  | names (key : String) (l : List String)
  | offsets (l : List Int)
  | topics (t : Storage.ConsumerTopics)
  | status (cluster group : String) (g : Option Group.GroupStatus)
  | module (fields : List (String × FieldVal))
  | moduleList (coordinator : String) (modules : List String)
  | other (what : String)
  deriving Repr, Inhabited

inductive CType where
  | json | text | none
  deriving DecidableEq, Repr, Inhabited

structure Resp where
  code    : Nat
  ctype   : CType
  /-- the envelope's `error` field, when the body is an envelope -/
  err     : Option Bool
  payload : Payload := .none
  /-- Location (redirects) or Allow (405 / OPTIONS) -/
  header  : String := ""
  deriving Repr, Inhabited

/-- what the handlers need from the rest of Burrow; `W` is the state of the world they act on -/
structure Backend (W : Type) where
  clusters       : W → List String
  topics         : W → String → Option (List String)
  topicDetail    : W → String → String → Option (List Int)
  topicConsumers : W → String → String → Option (List String)
  consumers      : W → String → Option (List String)
  /-- may drop the group if it had expired -/
  consumerDetail : W → String → String → W × Option Storage.ConsumerTopics
  /-- `none` = NOTFOUND -/
  status         : W → String → String → Bool → W × Option Group.GroupStatus
  deleteGroup    : W → String → String → String → W
  cfg            : W → Cfg

def ok (p : Payload) : Resp := { code := 200, ctype := .json, err := some false, payload := p }
def notFoundErr : Resp := { code := 404, ctype := .json, err := some true }

def param (ps : Params) (n : String) : String := (ps.lookup n).getD ""

/-- fields read for one module kind: (JSON name, key suffix, getter) -/
inductive Getter where
  | str | int | bool | slice | mapSS
  deriving DecidableEq, Repr, Inhabited

/-- `root`: the module's configuration root as the handlers build it (`<kind>.<name>`, split at dots);
    `raw`: the module's own table (`[kind, name]`, the name as ONE key) — since the repair of D20 the
    extras table of a notifier is read from there, not through the dotted key `<root>.extras` -/
def readField (c : Cfg) (root raw : List String) (suffix : String) : Getter → FieldVal
  | .str => .s (c.vString (root ++ [suffix]))
  | .int => .i (c.vInt (root ++ [suffix]))
  | .bool => .b (c.vBool (root ++ [suffix]))
  | .slice => .l (c.vSlice (root ++ [suffix]))
  | .mapSS => .m (c.leavesUnder (raw ++ [suffix]))

def storageFields : List (String × String × Getter) :=
  [("class-name", "class-name", .str), ("intervals", "intervals", .int), ("min-distance", "min-distance", .int),
   ("group-allowlist", "group-allowlist", .str), ("expire-group", "expire-group", .int)]

def evaluatorFields : List (String × String × Getter) :=
  [("class-name", "class-name", .str), ("expire-cache", "expire-cache", .int)]

def clusterFields : List (String × String × Getter) :=
  [("class-name", "class-name", .str), ("servers", "servers", .slice), ("topic-refresh", "topic-refresh", .int),
   ("offset-refresh", "offset-refresh", .int)]

def consumerFields : List (String × String × Getter) :=
  [("class-name", "class-name", .str), ("cluster", "cluster", .str), ("servers", "servers", .slice),
   ("group-allowlist", "group-allowlist", .str), ("zookeeper-path", "zookeeper-path", .str),
   ("zookeeper-timeout", "zookeeper-timeout", .int), ("offsets-topic", "offsets-topic", .str),
   ("start-latest", "start-latest", .bool)]

def notifierCommon : List (String × String × Getter) :=
  [("class-name", "class-name", .str), ("group-allowlist", "group-allowlist", .str), ("interval", "interval", .int),
   ("threshold", "threshold", .int), ("template-open", "template-open", .str), ("template-close", "template-close", .str),
   ("extra", "extras", .mapSS), ("send-close", "send-close", .bool)]

def notifierHTTP : List (String × String × Getter) :=
  notifierCommon ++ [("timeout", "timeout", .int), ("keepalive", "keepalive", .int), ("url-open", "url-open", .str),
    ("url-close", "url-close", .str), ("method-open", "method-open", .str), ("method-close", "method-close", .str),
    ("extra-ca", "extra-ca", .str), ("noverify", "noverify", .str)]

def notifierSlack : List (String × String × Getter) :=
  notifierCommon ++ [("timeout", "timeout", .int), ("keepalive", "keepalive", .int), ("channel", "channel", .str),
    ("username", "username", .str), ("icon-url", "icon-url", .str), ("icon-emoji", "icon-emoji", .str)]

def notifierEmail : List (String × String × Getter) :=
  notifierCommon ++ [("server", "server", .str), ("port", "port", .int), ("auth-type", "auth-type", .str),
    ("username", "username", .str), ("from", "from", .str), ("to", "to", .str), ("extra-ca", "extra-ca", .str),
    ("noverify", "noverify", .str)]

def readFields (c : Cfg) (root raw : List String) (fs : List (String × String × Getter)) : List (String × FieldVal) :=
  fs.map fun (j, suffix, g) => (j, readField c root raw suffix g)

/-- `getClientProfile` with its TLS and SASL sub-profiles, flattened with dotted JSON names -/
def clientProfile (c : Cfg) (name : String) : List (String × FieldVal) :=
  let root := "client-profile" :: keyPath name
  let tlsName := c.vString (root ++ ["tls"])
  let saslName := c.vString (root ++ ["sasl"])
  let tlsRoot := "tls" :: keyPath tlsName
  let saslRoot := "sasl" :: keyPath saslName
  [("client-profile.name", .s name), ("client-profile.client-id", .s (c.vString (root ++ ["client-id"]))),
   ("client-profile.kafka-version", .s (c.vString (root ++ ["kafka-version"])))] ++
  (if c.vSet tlsRoot then
    [("client-profile.tls.name", .s tlsName), ("client-profile.tls.certfile", .s (c.vString (tlsRoot ++ ["certfile"]))),
     ("client-profile.tls.keyfile", .s (c.vString (tlsRoot ++ ["keyfile"]))), ("client-profile.tls.cafile", .s (c.vString (tlsRoot ++ ["cafile"]))),
     ("client-profile.tls.noverify", .b (c.vBool (tlsRoot ++ ["noverify"])))]
   else [("client-profile.tls", .null)]) ++
  (if c.vSet saslRoot then
    [("client-profile.sasl.name", .s saslName), ("client-profile.sasl.handshake-first", .b (c.vBool (saslRoot ++ ["handshake-first"]))),
     ("client-profile.sasl.username", .s (c.vString (saslRoot ++ ["username"])))]
   else [("client-profile.sasl", .null)])

/-- `moduleConfigured` (config.go): the requested name is a key of the table of that kind -/
def moduleConfigured (c : Cfg) (kind name : String) : Bool := (c.vChildren [kind]).contains name.toLower

/-- the body of a module detail handler: the fields read under configuration root `root` -/
def moduleDetailAt (c : Cfg) (root raw : List String) (fs : List (String × String × Getter)) (withProfile : Bool) : Resp :=
  ok (.module (readFields c root raw fs ++
    (if withProfile then clientProfile c (c.vString (root ++ ["client-profile"])) else [])))

/-- a module detail handler: 404 unless the name is a configured module of that kind; then
    `configRoot := "<kind>." + name` -/
def moduleDetail (c : Cfg) (kind name : String) (fs : List (String × String × Getter)) (withProfile : Bool) : Resp :=
  if !moduleConfigured c kind name then notFoundErr
  else moduleDetailAt c (kind :: keyPath name) [kind, name.toLower] fs withProfile

def moduleList (c : Cfg) (kind : String) : Resp := ok (.moduleList kind (c.vChildren [kind]))

/-- the handlers of kafka.go / config.go -/
inductive H where
  | clusterList | clusterDetail | topicList | topicDetail | topicConsumers | consumerList | consumerDetail
  | consumerStatus | consumerStatusComplete | consumerDelete
  | configMain | storageList | evaluatorList | clusterCfgList | consumerCfgList | notifierList
  | storageDetail | evaluatorDetail | consumerCfgDetail | notifierDetail
  | getLogLevel | setLogLevel | admin | ready | metrics | unknown
  deriving DecidableEq, Repr, Inhabited

/-- the name a handler is registered under in coordinator.go -/
def H.ofName (h : String) : H :=
  if h == "handleClusterList" then .clusterList
  else if h == "handleClusterDetail" then .clusterDetail
  else if h == "handleTopicList" then .topicList
  else if h == "handleTopicDetail" then .topicDetail
  else if h == "handleTopicConsumerList" then .topicConsumers
  else if h == "handleConsumerList" then .consumerList
  else if h == "handleConsumerDetail" then .consumerDetail
  else if h == "handleConsumerStatus" then .consumerStatus
  else if h == "handleConsumerStatusComplete" then .consumerStatusComplete
  else if h == "handleConsumerDelete" then .consumerDelete
  else if h == "configMain" then .configMain
  else if h == "configStorageList" then .storageList
  else if h == "configEvaluatorList" then .evaluatorList
  else if h == "configClusterList" then .clusterCfgList
  else if h == "configConsumerList" then .consumerCfgList
  else if h == "configNotifierList" then .notifierList
  else if h == "configStorageDetail" then .storageDetail
  else if h == "configEvaluatorDetail" then .evaluatorDetail
  else if h == "configConsumerDetail" then .consumerCfgDetail
  else if h == "configNotifierDetail" then .notifierDetail
  else if h == "getLogLevel" then .getLogLevel
  else if h == "setLogLevel" then .setLogLevel
  else if h == "handleAdmin" then .admin
  else if h == "handleReady" then .ready
  else if h == "handlePrometheusMetrics" then .metrics
  else .unknown

def notifierDetailAt (c : Cfg) (root raw : List String) : Resp :=
  let cls := c.vString (root ++ ["class-name"])
  if cls == "http" then moduleDetailAt c root raw notifierHTTP false
  else if cls == "email" then moduleDetailAt c root raw notifierEmail false
  else if cls == "slack" then moduleDetailAt c root raw notifierSlack false
  else if cls == "null" then moduleDetailAt c root raw notifierCommon false
  else { code := 200, ctype := .none, err := none, payload := .other "empty" }

def notifierDetailResp (c : Cfg) (name : String) : Resp :=
  if !moduleConfigured c "notifier" name then notFoundErr
  else notifierDetailAt c ("notifier" :: keyPath name) ["notifier", name.toLower]

def handleH {W : Type} (be : Backend W) (w : W) (ps : Params) : H → W × Resp
  | .clusterList => (w, ok (.names "clusters" (be.clusters w)))
  | .clusterDetail => (w, moduleDetail (be.cfg w) "cluster" (param ps "cluster") clusterFields true)
  | .topicList =>
    (w, match be.topics w (param ps "cluster") with
        | some l => ok (.names "topics" l) | none => notFoundErr)
  | .topicDetail =>
    (w, match be.topicDetail w (param ps "cluster") (param ps "topic") with
        | some l => ok (.offsets l) | none => notFoundErr)
  | .topicConsumers =>
    (w, match be.topicConsumers w (param ps "cluster") (param ps "topic") with
        | some l => ok (.names "consumers" l) | none => notFoundErr)
  | .consumerList =>
    (w, match be.consumers w (param ps "cluster") with
        | some l => ok (.names "consumers" l) | none => notFoundErr)
  | .consumerDetail =>
    let r := be.consumerDetail w (param ps "cluster") (param ps "consumer")
    (r.1, match r.2 with | some t => ok (.topics t) | none => notFoundErr)
  | .consumerStatus =>
    let r := be.status w (param ps "cluster") (param ps "consumer") false
    (r.1, { code := if r.2.isSome then 200 else 404, ctype := .json, err := some false,
            payload := .status (param ps "cluster") (param ps "consumer") r.2 })
  | .consumerStatusComplete =>
    let r := be.status w (param ps "cluster") (param ps "consumer") true
    (r.1, { code := if r.2.isSome then 200 else 404, ctype := .json, err := some false,
            payload := .status (param ps "cluster") (param ps "consumer") r.2 })
  | .consumerDelete =>
    (be.deleteGroup w (param ps "cluster") (param ps "consumer") (param ps "topic"), ok .none)
  | .configMain => (w, ok (.other "main"))
  | .storageList => (w, moduleList (be.cfg w) "storage")
  | .evaluatorList => (w, moduleList (be.cfg w) "evaluator")
  | .clusterCfgList => (w, moduleList (be.cfg w) "cluster")
  | .consumerCfgList => (w, moduleList (be.cfg w) "consumer")
  | .notifierList => (w, moduleList (be.cfg w) "notifier")
  | .storageDetail => (w, moduleDetail (be.cfg w) "storage" (param ps "name") storageFields false)
  | .evaluatorDetail => (w, moduleDetail (be.cfg w) "evaluator" (param ps "name") evaluatorFields false)
  | .consumerCfgDetail => (w, moduleDetail (be.cfg w) "consumer" (param ps "name") consumerFields true)
  | .notifierDetail => (w, notifierDetailResp (be.cfg w) (param ps "name"))
  | .getLogLevel => (w, ok (.other "loglevel"))
  | .setLogLevel => (w, { code := 0, ctype := .json, err := none, payload := .other "setloglevel" })
  | .admin => (w, { code := 200, ctype := .text, err := none, payload := .other "GOOD" })
  | .ready => (w, { code := 0, ctype := .text, err := none, payload := .other "ready" })
  | .metrics => (w, { code := 200, ctype := .text, err := none, payload := .other "metrics" })
  | .unknown => (w, { code := 0, ctype := .none, err := none, payload := .other "unmodelled handler" })

/-- the handlers by the name they are registered under -/
def handle {W : Type} (be : Backend W) (w : W) (h : String) (ps : Params) : W × Resp :=
  handleH be w ps (H.ofName h)

/-- the whole server: route, then handle -/
def respond {W : Type} (routes : List Route) (be : Backend W) (w : W) (method path : String) : W × Resp :=
  match route routes method path with
  | .handler h ps => handle be w h ps
  | .redirect code loc => (w, { code, ctype := .text, err := none, header := loc })
  | .options a => (w, { code := 200, ctype := .none, err := none, header := ", ".intercalate a })
  | .notAllowed a => (w, { code := 405, ctype := .text, err := none, header := ", ".intercalate a })
  | .notFound => (w, { code := 404, ctype := .text, err := some true })

/-! ### Prometheus scrape (prometheus.go:109-161) -/

structure Series where
  name   : String
  labels : List String      -- label values in the vector's label order
  value  : Int
  deriving DecidableEq, Repr, Inhabited

/-- the series one group contributes -/
def groupSeries (cluster group : String) (g : Group.GroupStatus) : List Series :=
  [{ name := "burrow_kafka_consumer_lag_total", labels := [cluster, group], value := g.totalLag },
   { name := "burrow_kafka_consumer_status", labels := [cluster, group], value := g.status.toNat }] ++
  g.partitions.flatMap fun p =>
    let ls := [cluster, group, p.topic, toString p.partition]
    [{ name := "burrow_kafka_consumer_partition_lag", labels := ls, value := p.st.currentLag }] ++
    (if Group.isComplete p.st.complete then
      match p.st.end with
      | some e =>
        [{ name := "burrow_kafka_consumer_current_offset", labels := ls, value := e.offset },
         { name := "burrow_kafka_topic_partition_status", labels := ls, value := p.st.status.toNat }]
      | none => []   -- (a nil dereference in the Go code; excluded by `complete = 1` ⇒ window full)
     else [])

def topicSeries (cluster topic : String) (offsets : List Int) : List Series :=
  offsets.zipIdx.map fun oi =>
    { name := "burrow_kafka_topic_partition_offset", labels := [cluster, topic, toString oi.2], value := oi.1 }

/-- one group of one cluster: ask for its full status, write its series unless it is NOTFOUND -/
def scrapeGroup {W : Type} (be : Backend W) (cluster : String) (a : W × List Series) (group : String) : W × List Series :=
  let r := be.status a.1 cluster group true
  match r.2 with
  | some g => (r.1, a.2 ++ groupSeries cluster group g)
  | none => (r.1, a.2)

/-- one cluster: its groups, then its topics -/
def scrapeCluster {W : Type} (be : Backend W) (acc : W × List Series) (cluster : String) : W × List Series :=
  let a1 := ((be.consumers acc.1 cluster).getD []).foldl (scrapeGroup be cluster) acc
  (a1.1, a1.2 ++ ((be.topics a1.1 cluster).getD []).flatMap fun topic =>
    topicSeries cluster topic ((be.topicDetail a1.1 cluster topic).getD []))

/-- everything one scrape writes, in order, threading the world through the status requests.
    (With the repair of D9/D10/D17 the vectors are reset first, so this IS what the scrape reports.) -/
def scrapeWrites {W : Type} (be : Backend W) (w : W) : W × List Series :=
  (be.clusters w).foldl (scrapeCluster be) (w, [])

end Burrow.Http
