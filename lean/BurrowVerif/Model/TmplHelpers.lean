/-
  The two documented template helpers that compute over the partition list
  (core/internal/notifier/helpers.go): `topicsbystatus` (status name ↦ the topics that have a partition
  in that status) and `partitioncounts` (how many listed partitions are in each problem state).
  Stated declaratively; Go returns maps (and lists in map-iteration order), so the driver and the
  harness print them sorted.  Core Lean only.
-/
import BurrowVerif.Model.Tmpl

namespace Burrow.Tmpl

structure HPart where
  status : Int
  topic  : String
  deriving DecidableEq, Repr, Inhabited

def dedupS : List String → List String
  | [] => []
  | x :: xs => x :: (dedupS xs).filter (· != x)

/-- `classifyTopicsByStatus`: for every status name that occurs, the distinct topics with a partition in it -/
def topicsByStatus (ps : List HPart) : List (String × List String) :=
  (dedupS (ps.map fun p => statusName p.status)).map fun s =>
    (s, dedupS ((ps.filter fun p => statusName p.status == s).map (·.topic)))

/-- `templateCountPartitions`: OK partitions are not counted; NOTFOUND, ERR and unknown values count as "unknown" -/
def partitionCounts (ps : List HPart) : List (String × Nat) :=
  let n (f : Int → Bool) := (ps.filter fun p => f p.status).length
  [("rewind", n (· == 6)), ("stall", n (· == 5)), ("stop", n (· == 4)),
   ("unknown", n fun s => !(s == 1 || s == 2 || s == 4 || s == 5 || s == 6)), ("warn", n (· == 2))]

end Burrow.Tmpl
