/-
  Model of the fragment of Go's `text/template` (go1.24 exec.go / funcs.go) that Burrow's notification
  templates use, together with Burrow's helper functions (core/internal/notifier/helpers.go).

  * `T` is a template body: a sequence of text, actions, `if/else` and `range/else` (the sequence is
    encoded by the `rest` argument so that `T` is a plain inductive type).
  * `Val` is the universe of values the data handed to a template is made of.
  * `exec` mirrors `state.walk`; `step` mirrors `state.evalField` (method first, then struct field
    or map key; a nil pointer receiver is an error); `builtin` mirrors the functions in scope.
  * `check` is a type checker over a schema of the data (generated from the Go types on every run);
    `Proofs/Tmpl.lean` proves that a checked template never fails on any value of the schema.

  Everything the model does not cover evaluates to `Res.unsup` (never silently to a default), and
  the checker rejects it.  Renderings produced by Go library code (float formatting, `time.Format`,
  `json.Marshal`) are parameters (`Env`).  Core Lean only.
-/
namespace Burrow.Tmpl

/-! ### Types and schema -/

inductive Ty where
  | str | bool | float | time | status
  /-- Go `int` is `int 0`; `int32`/`int64` are `int 32`/`int 64` -/
  | int (w : Nat)
  | uint
  /-- a struct type defined in the schema -/
  | named (n : String)
  /-- a Go pointer (may be nil) -/
  | ptr (t : Ty)
  /-- a pointer known not to be nil (refinement used by the status invariants; not a Go type) -/
  | ref (t : Ty)
  | slice (t : Ty)
  /-- `map[string]string` -/
  | mapSS
  /-- any other Go type: nothing can be done with it -/
  | other (desc : String)
  deriving DecidableEq, Repr, Inhabited

structure StructDef where
  /-- name of the Go type the values carry (differs from the schema key only for refinements) -/
  tag     : String
  fields  : List (String × Ty)
  /-- names in the method set of the type or of its pointer type (calling them is outside the model) -/
  methods : List String
  deriving DecidableEq, Repr, Inhabited

abbrev Schema := List (String × StructDef)

/-! ### Values -/

inductive Val where
  | str (s : String)
  | bool (b : Bool)
  | float (bits : Nat)
  | time (id : Int)
  | status (n : Int)
  | int (w : Nat) (i : Int)
  | uint (n : Nat)
  | nil
  | ref (v : Val)
  | list (vs : List Val)
  | map (kvs : List (String × String))
  | obj (name : String) (fields : List (String × Val))
  /-- reflect's invalid value (a missing map key reached through a field chain) -/
  | noValue
  deriving Repr, Inhabited

/-! ### Template syntax -/

inductive Arg where
  | dot
  | field (chain : List String)
  | str (s : String)
  | num (n : Int)
  | unsupported (what : String)
  deriving DecidableEq, Repr, Inhabited

inductive Cmd where
  /-- `.A.B.name args…` : walk `pre` from dot, then method-or-field `name` with the arguments -/
  | field (pre : List String) (name : String) (args : List Arg)
  | dot
  | call (fn : String) (args : List Arg)
  | lit (a : Arg)
  | unsupported (what : String)
  deriving DecidableEq, Repr, Inhabited

abbrev Pipe := List Cmd

inductive T where
  | done
  | text (s : String) (rest : T)
  | action (p : Pipe) (rest : T)
  | ite (p : Pipe) (thn els rest : T)
  | range (p : Pipe) (body els rest : T)
  | unsupported (what : String) (rest : T)
  deriving DecidableEq, Repr, Inhabited

/-! ### Results -/

inductive Res (α : Type) where
  | ok (a : α)
  | err (why : String)
  | unsup (why : String)
  deriving Repr, Inhabited

namespace Res
def bind {α β} : Res α → (α → Res β) → Res β
  | ok a, f => f a
  | err w, _ => err w
  | unsup w, _ => unsup w
instance : Monad Res where
  pure := ok
  bind := bind
def isOk {α} : Res α → Bool
  | ok _ => true
  | _ => false
end Res

@[simp] theorem Res.bind_ok {α β} (a : α) (f : α → Res β) : (Res.ok a >>= f) = f a := rfl
@[simp] theorem Res.bind_err {α β} (w : String) (f : α → Res β) : (Res.err w >>= f) = Res.err w := rfl
@[simp] theorem Res.bind_unsup {α β} (w : String) (f : α → Res β) : (Res.unsup w >>= f) = Res.unsup w := rfl
@[simp] theorem Res.pure_eq {α} (a : α) : (pure a : Res α) = Res.ok a := rfl

/-- renderings done by Go library code, as parameters -/
structure Env where
  fmtTime   : Int → String → String
  fmtFloat  : Nat → String
  /-- `json.Marshal` of the one slice in the data (`.Result.Partitions`) -/
  partsJson : String

/-- `mapM` written out (so that proofs are by plain list induction) -/
def mapRes {α β} (f : α → Res β) : List α → Res (List β)
  | [] => .ok []
  | a :: as =>
    match f a with
    | .ok b => (match mapRes f as with | .ok bs => .ok (b :: bs) | .err w => .err w | .unsup w => .unsup w)
    | .err w => .err w
    | .unsup w => .unsup w

/-! ### Evaluation -/

/-- `protocol.StatusConstant.String` -/
def statusName (n : Int) : String :=
  if n = 0 then "NOTFOUND" else if n = 1 then "OK" else if n = 2 then "WARN" else if n = 3 then "ERR"
  else if n = 4 then "STOP" else if n = 5 then "STALL" else if n = 6 then "REWIND" else "UNKNOWN"

def methodsOf (σ : Schema) (n : String) : List String :=
  match σ.lookup n with
  | some d => d.methods
  | none => []

/-- struct field / map key lookup of `evalField` after the method lookup failed -/
def fieldOf (σ : Schema) (v : Val) (name : String) : Res Val :=
  match v with
  | .nil => .err "nil pointer evaluating field"
  | .ref (.obj n fs) | .obj n fs =>
    if (methodsOf σ n).contains name then .unsup ("method " ++ name) else
    match fs.lookup name with
    | some x => .ok x
    | none => .err ("can't evaluate field " ++ name)
  | .map kvs =>
    match kvs.lookup name with
    | some s => .ok (.str s)
    | none => .ok .noValue
  | .time _ => .unsup "time.Time member"
  | .status _ => .unsup "StatusConstant member"
  | .ref _ => .unsup "pointer to non-struct"
  | _ => .err ("can't evaluate field " ++ name)

/-- `evalField`: method of the receiver if there is one, else field; arguments only for methods -/
def step (σ : Schema) (env : Env) (v : Val) (name : String) (args : List Val) : Res Val :=
  match v with
  | .time t =>
    if name = "Format" then
      match args with
      | [.str layout] => .ok (.str (env.fmtTime t layout))
      | _ => .err "wrong arguments for Format"
    else if (methodsOf σ "Time").contains name then .unsup "time.Time method" else .err "can't evaluate field of time.Time"
  | .status n =>
    if name = "String" then
      (if args.isEmpty then .ok (.str (statusName n)) else .err "wrong number of args for String")
    else if (methodsOf σ "StatusConstant").contains name then .unsup "StatusConstant method"
    else .err "can't evaluate field of StatusConstant"
  | _ =>
    match fieldOf σ v name with
    | .ok x => if args.isEmpty then .ok x else .err (name ++ " has arguments but cannot be invoked as function")
    | .err w => .err w
    | .unsup w => .unsup w

/-- a field chain evaluated niladically -/
def walk (σ : Schema) (env : Env) : Val → List String → Res Val
  | v, [] => .ok v
  | v, f :: rest =>
    match step σ env v f [] with
    | .ok x => walk σ env x rest
    | .err w => .err w
    | .unsup w => .unsup w

def evalArg (σ : Schema) (env : Env) (dot : Val) : Arg → Res Val
  | .dot => .ok dot
  | .field chain => walk σ env dot chain
  | .str s => .ok (.str s)
  | .num n => .ok (.int 0 n)
  | .unsupported w => .unsup w

/-- the integer a value of an integer kind holds (`eq` compares across integer kinds) -/
def intLike : Val → Option Int
  | .int _ i => some i
  | .uint n => some n
  | .status n => some n
  | _ => none

/-- `basicKind` of funcs.go: 0 bool, 1 integer, 2 float, 3 string -/
def basicKind : Val → Option Nat
  | .bool _ => some 0
  | .int _ _ | .uint _ | .status _ => some 1
  | .float _ => some 2
  | .str _ => some 3
  | _ => none

def wrapInt (x : Int) : Int := (x + (2:Int)^63) % (2:Int)^64 - (2:Int)^63

def fnLen : List Val → Res Val
  | [.list vs] => .ok (.int 0 vs.length)
  | [.map kvs] => .ok (.int 0 kvs.length)
  | [.str s] => .ok (.int 0 s.utf8ByteSize)
  | _ => .err "len: bad arguments"

def fnIndex : List Val → Res Val
  | [.map kvs, .str k] => .ok (.str ((kvs.lookup k).getD ""))
  | [.list vs, .int _ i] =>
    if 0 ≤ i ∧ i.toNat < vs.length then .ok (vs.getD i.toNat .noValue) else .err "index out of range"
  | [.map _, _, _] => .err "can't index a string"
  | [_, _] => .err "can't index item"
  | _ => .unsup "index arity"

def fnEq : List Val → Res Val
  | [.str a, .str b] => .ok (.bool (a == b))
  | [.bool a, .bool b] => .ok (.bool (a == b))
  | [a, b] =>
    match intLike a, intLike b with
    | some x, some y => .ok (.bool (x == y))
    | _, _ =>
      match basicKind a, basicKind b with
      | some ka, some kb => if ka == kb then .unsup "eq on floats" else .err "incompatible types for comparison"
      | _, _ => .unsup "eq on these kinds"
  | _ => .unsup "eq arity"

def fnJson (env : Env) : List Val → Res Val
  | [.list _] => .ok (.str env.partsJson)
  | [.int _ i] => .ok (.str (toString i))
  | [.uint n] => .ok (.str (toString n))
  | _ => .unsup "jsonencoder of this kind or arity"

def fnMaxlag : List Val → Res Val
  | [.nil] => .ok (.uint 0)
  | [.noValue] => .ok (.uint 0)
  | [.ref (.obj n fs)] =>
    if n = "PartitionStatus" then
      match fs.lookup "CurrentLag" with
      | some (.uint l) => .ok (.uint l)
      | _ => .unsup "maxlag: CurrentLag"
    else .err "wrong type for maxlag"
  | _ => .err "maxlag: wrong type or number of arguments"

/-- `add`, `minus`, `multiply`, `divide` (Go `int` arithmetic; only values of type `int` are assignable) -/
def fnArith (op : Int → Int → Res Int) : List Val → Res Val
  | [.int 0 a, .int 0 b] =>
    match op a b with
    | .ok r => .ok (.int 0 (wrapInt r))
    | .err w => .err w
    | .unsup w => .unsup w
  | _ => .err "arithmetic helper: wrong type or number of arguments"

/-- functions in scope: the builtins the templates use and Burrow's helpers -/
def builtin (env : Env) (fn : String) (args : List Val) : Res Val :=
  if fn = "len" then fnLen args
  else if fn = "index" then fnIndex args
  else if fn = "eq" then fnEq args
  else if fn = "jsonencoder" then fnJson env args
  else if fn = "maxlag" then fnMaxlag args
  else if fn = "add" then fnArith (fun a b => .ok (a + b)) args
  else if fn = "minus" then fnArith (fun a b => .ok (a - b)) args
  else if fn = "multiply" then fnArith (fun a b => .ok (a * b)) args
  else if fn = "divide" then fnArith (fun a b => if b = 0 then .err "integer divide by zero" else .ok (Int.tdiv a b)) args
  else .unsup ("function " ++ fn)

def evalCmd (σ : Schema) (env : Env) (dot : Val) (final : Option Val) : Cmd → Res Val
  | .dot => if final.isNone then .ok dot else .unsup "dot in later pipeline stage"
  | .field pre name args =>
    match walk σ env dot pre with
    | .ok recv =>
      (match mapRes (evalArg σ env dot) args with
       | .ok vs => step σ env recv name (vs ++ final.toList)
       | .err w => .err w
       | .unsup w => .unsup w)
    | .err w => .err w
    | .unsup w => .unsup w
  | .call fn args =>
    match mapRes (evalArg σ env dot) args with
    | .ok vs => builtin env fn (vs ++ final.toList)
    | .err w => .err w
    | .unsup w => .unsup w
  | .lit a => if final.isNone then evalArg σ env dot a else .unsup "literal in later pipeline stage"
  | .unsupported w => .unsup w

def evalPipe (σ : Schema) (env : Env) (dot : Val) : Option Val → List Cmd → Res Val
  | some v, [] => .ok v
  | none, [] => .unsup "empty pipeline"
  | fin, c :: cs =>
    match evalCmd σ env dot fin c with
    | .ok v => evalPipe σ env dot (some v) cs
    | .err w => .err w
    | .unsup w => .unsup w

/-- `printValue` for the kinds whose rendering does not involve addresses -/
def printScalar (env : Env) : Val → Option String
  | .str s => some s
  | .bool b => some (if b then "true" else "false")
  | .float b => some (env.fmtFloat b)
  | .status n => some (statusName n)
  | .int _ i => some (toString i)
  | .uint n => some (toString n)
  | _ => none

def printFields (env : Env) : List (String × Val) → Option (List String)
  | [] => some []
  | (_, v) :: rest =>
    match printScalar env v, printFields env rest with
    | some s, some ss => some (s :: ss)
    | _, _ => none

def printVal (env : Env) (v : Val) : Res String :=
  match printScalar env v with
  | some s => .ok s
  | none =>
    match v with
    | .nil => .ok "<nil>"
    | .noValue => .ok "<no value>"
    | .ref (.obj _ fs) | .obj _ fs =>
      (match printFields env fs with
       | some ss => .ok ("{" ++ " ".intercalate ss ++ "}")
       | none => .unsup "printing a struct with non-scalar fields")
    | _ => .unsup "printing this kind"

/-- `isTrue` -/
def truth : Val → Bool
  | .str s => !s.isEmpty
  | .bool b => b
  | .float b => b % 2^31 != 0
  | .time _ => true
  | .status n => n != 0
  | .int _ i => i != 0
  | .uint n => n != 0
  | .nil => false
  | .ref _ => true
  | .list vs => !vs.isEmpty
  | .map kvs => !kvs.isEmpty
  | .obj _ _ => true
  | .noValue => false

def concatRes : List (Res String) → Res String
  | [] => .ok ""
  | r :: rs =>
    match r with
    | .ok s => (match concatRes rs with | .ok t => .ok (s ++ t) | .err w => .err w | .unsup w => .unsup w)
    | .err w => .err w
    | .unsup w => .unsup w

/-- `state.walk` -/
def exec (σ : Schema) (env : Env) : T → Val → Res String
  | .done, _ => .ok ""
  | .text s rest, dot =>
    match exec σ env rest dot with
    | .ok r => .ok (s ++ r)
    | .err w => .err w
    | .unsup w => .unsup w
  | .action p rest, dot =>
    match evalPipe σ env dot none p with
    | .ok v =>
      (match printVal env v with
       | .ok s => (match exec σ env rest dot with | .ok r => .ok (s ++ r) | .err w => .err w | .unsup w => .unsup w)
       | .err w => .err w
       | .unsup w => .unsup w)
    | .err w => .err w
    | .unsup w => .unsup w
  | .ite p thn els rest, dot =>
    match evalPipe σ env dot none p with
    | .ok v =>
      (match (if truth v then exec σ env thn dot else exec σ env els dot) with
       | .ok s => (match exec σ env rest dot with | .ok r => .ok (s ++ r) | .err w => .err w | .unsup w => .unsup w)
       | .err w => .err w
       | .unsup w => .unsup w)
    | .err w => .err w
    | .unsup w => .unsup w
  | .range p body els rest, dot =>
    match evalPipe σ env dot none p with
    | .ok v =>
      let inner : Res String :=
        match v with
        | .list [] => exec σ env els dot
        | .list vs => concatRes (vs.map fun x => exec σ env body x)
        | .map _ => .unsup "range over a map"
        | .int _ _ => .unsup "range over an integer"
        | _ => .err "range can't iterate over this value"
      (match inner with
       | .ok s => (match exec σ env rest dot with | .ok r => .ok (s ++ r) | .err w => .err w | .unsup w => .unsup w)
       | .err w => .err w
       | .unsup w => .unsup w)
    | .err w => .err w
    | .unsup w => .unsup w
  | .unsupported w _, _ => .unsup w

/-! ### The checker -/

def scalarTy : Ty → Bool
  | .str | .bool | .float | .status | .int _ | .uint => true
  | _ => false

/-- every definition's method list is the method list of the Go type its values are tagged with -/
def wfTags (σ : Schema) : Bool :=
  σ.all fun (_, d) => methodsOf σ d.tag == d.methods

def structOf (σ : Schema) : Ty → Option (String × StructDef)
  | .named n | .ref (.named n) => (σ.lookup n).map fun d => (n, d)
  | _ => none

/-- type of member `name` reached with `nargs` arguments -/
def tyStep (σ : Schema) (τ : Ty) (name : String) (args : List Ty) : Option Ty :=
  match τ with
  | .time => if name = "Format" then (match args with | [.str] => some .str | _ => none) else none
  | .status => if name = "String" ∧ args.isEmpty then some .str else none
  | _ =>
    match structOf σ τ with
    | some (_, d) =>
      if d.methods.contains name then none
      else if args.isEmpty then d.fields.lookup name else none
    | none => none

def tyWalk (σ : Schema) : Ty → List String → Option Ty
  | τ, [] => some τ
  | τ, f :: rest =>
    match tyStep σ τ f [] with
    | some τ' => tyWalk σ τ' rest
    | none => none

def tyArg (σ : Schema) (dot : Ty) : Arg → Option Ty
  | .dot => some dot
  | .field chain => tyWalk σ dot chain
  | .str _ => some .str
  | .num _ => some (.int 0)
  | .unsupported _ => none

def mapOpt {α β} (f : α → Option β) : List α → Option (List β)
  | [] => some []
  | a :: as =>
    match f a, mapOpt f as with
    | some b, some bs => some (b :: bs)
    | _, _ => none

def intLikeTy : Ty → Bool
  | .int _ | .uint | .status => true
  | _ => false

def tyBuiltin (fn : String) (args : List Ty) : Option Ty :=
  if fn = "len" then
    match args with
    | [.slice _] | [.mapSS] | [.str] => some (.int 0)
    | _ => none
  else if fn = "index" then
    match args with
    | [.mapSS, .str] => some .str
    | _ => none
  else if fn = "eq" then
    match args with
    | [.str, .str] | [.bool, .bool] => some .bool
    | [a, b] => if intLikeTy a ∧ intLikeTy b then some .bool else none
    | _ => none
  else if fn = "jsonencoder" then
    match args with
    | [.slice _] | [.int _] | [.uint] => some .str
    | _ => none
  else if fn = "add" ∨ fn = "minus" ∨ fn = "multiply" then
    match args with
    | [.int 0, .int 0] => some (.int 0)
    | _ => none
  else none

def tyCmd (σ : Schema) (dot : Ty) (final : Option Ty) : Cmd → Option Ty
  | .dot => if final.isNone then some dot else none
  | .field pre name args =>
    match tyWalk σ dot pre, mapOpt (tyArg σ dot) args with
    | some recv, some ts => tyStep σ recv name (ts ++ final.toList)
    | _, _ => none
  | .call fn args =>
    match mapOpt (tyArg σ dot) args with
    | some ts => tyBuiltin fn (ts ++ final.toList)
    | none => none
  | .lit a => if final.isNone then tyArg σ dot a else none
  | .unsupported _ => none

def tyPipe (σ : Schema) (dot : Ty) : Option Ty → List Cmd → Option Ty
  | some t, [] => some t
  | none, [] => none
  | fin, c :: cs =>
    match tyCmd σ dot fin c with
    | some t => tyPipe σ dot (some t) cs
    | none => none

def allScalar : List (String × Ty) → Bool
  | [] => true
  | (_, t) :: rest => scalarTy t && allScalar rest

/-- what an action may print without the model giving up -/
def printable (σ : Schema) (τ : Ty) : Bool :=
  scalarTy τ ||
  match τ with
  | .ptr (.named n) | .ref (.named n) | .named n =>
    (match σ.lookup n with
     | some d => allScalar d.fields
     | none => false)
  | _ => false

/-- the type checker: `check σ t τ = true` means template `t` executes without error on every
    value of type `τ` (theorem `check_sound`). -/
def check (σ : Schema) : T → Ty → Bool
  | .done, _ => true
  | .text _ rest, τ => check σ rest τ
  | .action p rest, τ =>
    (match tyPipe σ τ none p with
     | some t => printable σ t
     | none => false) && check σ rest τ
  | .ite p thn els rest, τ =>
    (tyPipe σ τ none p).isSome && check σ thn τ && check σ els τ && check σ rest τ
  | .range p body els rest, τ =>
    (match tyPipe σ τ none p with
     | some (.slice e) => check σ body e
     | _ => false) && check σ els τ && check σ rest τ
  | .unsupported _ _, _ => false

end Burrow.Tmpl
