/-
  Model of the Kafka consumer module's start-up and of its per-partition consumer loops,
  core/internal/consumer/kafka_client.go:179-363 (startBackfillPartitionConsumer, partitionConsumer,
  startKafkaConsumer).  What the Kafka client answers is the parameter `Cfg`; the decoder each message
  is handed to is `Decode.processMessage`.
-/
import BurrowVerif.Model.Decode

namespace Burrow.Consume
open Burrow Burrow.Decode

/-- sarama.OffsetNewest / sarama.OffsetOldest -/
def offsetNewest : Int := -1
def offsetOldest : Int := -2

/-- what the Kafka client answers while the consumers are started -/
structure Cfg where
  startLatest  : Bool
  backfill     : Bool
  /-- `client.Partitions(offsetsTopic)`; `none` = error -/
  partitions   : Option (List Int)
  /-- `client.GetOffset(topic, p, OffsetOldest / OffsetNewest)`; `none` = error -/
  oldest       : Int → Option Int
  newest       : Int → Option Int
  /-- the n-th `NewConsumerFromClient` call fails (0 = none) -/
  failConsumer : Nat
  /-- `ConsumePartition` fails on this consumer instance (1 = live, 2 = backfill; 0 = none) for this partition -/
  failConsume  : Nat × Int

/-- one `ConsumePartition` result and what became of it -/
structure PC where
  inst      : Nat
  partition : Int
  startFrom : Int
  /-- backfill consumers stop after the first message at or beyond this offset -/
  stopAt    : Option Int
  /-- a `partitionConsumer` goroutine reads it -/
  running   : Bool
  /-- the module closed it -/
  closed    : Bool
  deriving Repr, DecidableEq, Inhabited

/-- kafka_client.go:318-331: one live consumer per partition, in order; the first failure aborts the
    start (the consumers already started keep running) -/
def startLive (c : Cfg) (start : Int) : List Int → List PC × Bool
  | [] => ([], true)
  | p :: ps =>
    if c.failConsume = (1, p) then ([], false) else
      let (rest, ok) := startLive c start ps
      ({ inst := 1, partition := p, startFrom := start, stopAt := none, running := true, closed := false } :: rest, ok)

/-- kafka_client.go:179 `startBackfillPartitionConsumer` -/
def startBackfill (c : Cfg) (p : Int) : Option PC × Bool :=
  if c.failConsume = (2, p) then (none, false) else
  let opened (running closed : Bool) (stop : Option Int) : PC :=
    { inst := 2, partition := p, startFrom := offsetOldest, stopAt := stop, running, closed }
  match c.oldest p with
  | none => (some (opened false false none), false)
  | some o =>
    match c.newest p with
    | none => (some (opened false false none), false)
    | some n =>
      -- GetOffset returns the next offset to be published; the last published one is wanted
      let n := if n > 0 then n - 1 else n
      if o ≥ n then (some (opened false true none), true)
      else (some (opened true false (some n)), true)

structure StartOut where
  ok      : Bool
  /-- times the module closed the client -/
  closes  : Nat
  opened  : List PC
  deriving Repr, DecidableEq, Inhabited

/-- kafka_client.go:286 `startKafkaConsumer` (the backfill starts run concurrently; every one of them
    runs to its end whichever reports first) -/
def start (c : Cfg) : StartOut :=
  if c.failConsumer = 1 then { ok := false, closes := 1, opened := [] } else
  match c.partitions with
  | none => { ok := false, closes := 1, opened := [] }
  | some ps =>
    let (live, ok) := startLive c (if c.startLatest then offsetNewest else offsetOldest) ps
    if !ok then { ok := false, closes := 0, opened := live } else
    if !c.backfill then { ok := true, closes := 0, opened := live } else
    if c.failConsumer = 2 then { ok := false, closes := 1, opened := live } else
      let bs := ps.map (startBackfill c)
      { ok := bs.all (·.2), closes := 0, opened := live ++ bs.filterMap (·.1) }

/-- a message of the offsets topic as sarama hands it over -/
structure Msg where
  topic     : Bytes
  partition : Int
  offset    : Int
  key       : Bytes
  value     : Bytes

/-- what one iteration of `partitionConsumer` does with a (non-nil) message: the module's own progress
    commit if a reported group is configured (its timestamp is the wall clock: not modelled), the
    decoder's requests, and whether the loop ends -/
structure Handled where
  progress : Option Req
  decoded  : Outcome
  ends     : Bool

def handle (accept : Accept) (reported : Option Bytes) (stopAt : Option Int) (m : Msg) : Handled :=
  { progress := reported.map fun g => Req.offset g m.topic m.partition (m.offset + 1) 0 m.offset,
    decoded := processMessage accept m.offset m.key m.value,
    ends := match stopAt with
      | some e => decide (m.offset ≥ e)
      | none => false }

/-- kafka_client.go:238 `partitionConsumer` over the messages it is handed, in order (`none` = a nil
    message or an entry of the error channel: skipped): everything it forwards, and whether it has ended -/
def consume (accept : Accept) (reported : Option Bytes) (stopAt : Option Int) :
    List (Option Msg) → List Req × Bool
  | [] => ([], false)
  | none :: rest => consume accept reported stopAt rest
  | some m :: rest =>
    let h := handle accept reported stopAt m
    let here := h.progress.toList ++ h.decoded.reqs
    if h.ends then (here, true)
    else let (more, e) := consume accept reported stopAt rest; (here ++ more, e)

end Burrow.Consume
