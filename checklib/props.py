"""Per-property configuration of the checks (streams, judged output fields, Lean modules)."""

GLOBAL_TRUSTED = [
    "Lean 4.33.0 kernel; axioms limited to propext, Classical.choice, Quot.sound (audited by #print axioms on every property theorem on every run); thorough tier re-checks the compiled modules with leanchecker",
    "the theorem is about the Lean model; the model is tied to /repo by (a) facts regenerated from the Go source on every run (/verif/extract) and (b) a sampled differential correspondence check (Go harness calling the real code in-process with -tags verif vs the compiled Lean driver bvdriver) — a divergence on inputs the generators never produce is not seen",
    "the Go harness (/verif/harness: generators, canonicalisation, oracle bits computed with the same library calls Burrow uses) and the orchestrator (/verif/checklib)",
    "the Lean compiler/runtime executing the model inside bvdriver (affects only the correspondence check, not the theorems)",
]

PROPS = {}

PROPS["C03"] = {
    "lean_modules": ["BurrowVerif.Props.C03"],
    "props_files": ["BurrowVerif/Props/C03.lean"],
    "anchors": ["core/internal/evaluator/caching.go", "core/protocol/evaluator.go"],
    "streams": [
        {"name": "eval", "keys": None, "trivial": r"^status=1( |$)", "hist_keys": ["status"],
         "scale": {"quick": 1, "thorough": 40}, "seeds": {"quick": 1, "thorough": 4}},
    ],
    "rule": "stream eval: windows of 1-6 commits over small offset/timestamp/lag alphabets (6 shapes: free, stalled, advancing, rewinding, drifting; bases 0, 100, MaxInt64-10, -5), 0-4 broker offsets around the last commit, allowed-lag 0-3, current lag 0-4 or huge, clock placed on and around the STOP boundary; half the cases call calculatePartitionStatus directly, half evaluatePartitionStatus with nil prefixes, all-nil and empty windows and 10 minimum-complete thresholds (exact float32 emulation on the model side). Non-trivial = model status other than OK, or a panic.",
    "trusted": [
        "float32 division/comparison of the completeness gate is an abstract predicate `meets` in the theorems and an exact integer emulation in the driver (Model/Float32.lean), validated differentially",
        "int64 overflow of now*1000 and timestamp differences is not modelled (Int arithmetic); generator keeps |t| < 2^62",
    ],
    "assumptions": [
        "evaluatePartitionStatus reads time.Now().Unix(); the harness samples the clock before and after each call and retries when the second ticked (sample-and-retry)",
    ],
}
