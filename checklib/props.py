"""Per-property configuration of the checks (streams, judged output fields, Lean modules)."""

GLOBAL_TRUSTED = [
    "Lean 4.33.0 kernel; axioms limited to propext, Classical.choice, Quot.sound (audited by #print axioms on every property theorem on every run); thorough tier re-checks the compiled modules with leanchecker",
    "the theorem is about the Lean model; the model is tied to /repo by (a) facts regenerated from the Go source on every run (/verif/extract) and (b) a sampled differential correspondence check (Go harness calling the real code in-process with -tags verif vs the compiled Lean driver bvdriver) — a divergence on inputs the generators never produce is not seen",
    "the Go harness (/verif/harness: generators, canonicalisation, oracle bits computed with the same library calls Burrow uses) and the orchestrator (/verif/checklib)",
    "the Lean compiler/runtime executing the model inside bvdriver (affects only the correspondence check, not the theorems)",
]

PROPS = {}

PROPS["C03"] = {
    "lean_modules": ["BurrowVerif.Props.C03"],
    "props_files": ["BurrowVerif/Props/C03.lean"],
    "anchors": ["core/internal/evaluator/caching.go", "core/protocol/evaluator.go"],
    "streams": [
        {"name": "eval", "keys": None, "trivial": r"^status=1( |$)", "hist_keys": ["status"],
         "scale": {"quick": 1, "thorough": 40}, "seeds": {"quick": 1, "thorough": 4}},
    ],
    "rule": "stream eval: windows of 1-6 commits over small offset/timestamp/lag alphabets (6 shapes: free, stalled, advancing, rewinding, drifting; bases 0, 100, MaxInt64-10, -5), 0-4 broker offsets around the last commit, allowed-lag 0-3, current lag 0-4 or huge, clock placed on and around the STOP boundary; half the cases call calculatePartitionStatus directly, half evaluatePartitionStatus with nil prefixes, all-nil and empty windows and 10 minimum-complete thresholds (exact float32 emulation on the model side). Non-trivial = model status other than OK, or a panic.",
    "trusted": [
        "float32 division/comparison of the completeness gate is an abstract predicate `meets` in the theorems and an exact integer emulation in the driver (Model/Float32.lean), validated differentially",
        "int64 overflow of now*1000 and timestamp differences is not modelled (Int arithmetic); generator keeps |t| < 2^62",
    ],
    "assumptions": [
        "evaluatePartitionStatus reads time.Now().Unix(); the harness samples the clock before and after each call and retries when the second ticked (sample-and-retry)",
    ],
}

_DECODE_STREAM = {"name": "decode", "trivial": r"^reqs=- alloc=ok", "hist_keys": ["alloc", "n"],
                  "scale": {"quick": 1, "thorough": 12}, "seeds": {"quick": 1, "thorough": 3}}
_DECODE_RULE = ("stream decode: structured offset-commit (key v0/v1, value v0/v1/v3 and unsupported versions) and group-metadata "
                "(value v0-v3, 0-3 members, 0-3 topics x 0-4 partitions, null/empty/unicode/300-byte strings, extreme integers, duplicate topic "
                "names) messages built by an independent Go encoder; for each: the message itself, with trailing bytes, its tombstone, every truncation "
                "of key and value, every length/count field replaced by each of {min, -2, -1, 0, 1, 2, 2^24, max} and true length +-1, plus random byte "
                "strings; 5 allow/deny configurations. Non-trivial = at least one storage request produced, a panic, or an allocation verdict other than ok.")

PROPS["C06"] = {
    "lean_modules": ["BurrowVerif.Props.C06"],
    "props_files": ["BurrowVerif/Props/C06.lean"],
    "anchors": ["core/internal/consumer/kafka_client.go"],
    "streams": [dict(_DECODE_STREAM, keys={"alloc", "reqs"})],
    "rule": _DECODE_RULE,
    "trusted": [
        "allocation is modelled as the sizes requested through make/string conversion by wire-controlled values (theorem) and observed on the implementation as runtime.MemStats.TotalAlloc per message against the same bound + 16 KiB slack for logger and harness objects; the Go allocator's real footprint is not modelled",
        "the real decoder runs in a child process with a 6 GiB address-space cap so that a ballooning allocation is an observable crash",
    ],
    "assumptions": ["bytes.Buffer / encoding/binary read semantics as modelled (short read = error), validated differentially"],
}
_CONSUME_STREAM = {"name": "consume", "keys": None, "trivial": r"^(d=nocons|d=blocked|d=sent rep=- reqs=- term=0|stopped cons=-|rc=\w+ closes=\d cons=-)$", "hist_keys": ["rc", "d", "term"],
                   "scale": {"quick": 1, "thorough": 6}, "seeds": {"quick": 1, "thorough": 3}}
_CONSUME_RULE = ("stream consume: the Kafka consumer module's REAL startKafkaConsumer (hook e99cdc2) on a scripted offsets topic (verifhook.FakeOffsetsTopic): 0-4 partitions (ids 0,1,2,5), "
                 "start-latest on/off, backfill-earliest on/off, a reported group on/off, oldest/newest offsets per partition incl. empty partitions, newest = 0 and newest = oldest + 1, one injected fault "
                 "in a third of the cases (first or second NewConsumerFromClient, Partitions, ConsumePartition of a live or backfill consumer, GetOffset oldest/newest); compared: the result, how often the client "
                 "was closed, every partition consumer opened (instance, partition, start offset, closed or not). Then 0-13 messages fed to the consumers it opened — structured commits and group-metadata records "
                 "from the decode stream's encoder, nil messages, consume errors — at offsets placed around each backfill's end offset; per message: delivered or blocked (nobody reads that consumer), the module's "
                 "own progress commit, the decoder's requests (sorted), whether the consumer ended; finally the real Stop and which consumers were closed. Non-trivial = a delivered message that forwards something, "
                 "or a start that opens a consumer.")
PROPS["C07"] = {
    "lean_modules": ["BurrowVerif.Props.C07"],
    "props_files": ["BurrowVerif/Props/C07.lean"],
    "anchors": ["core/internal/consumer/kafka_client.go", "core/protocol/storage.go"],
    "streams": [dict(_DECODE_STREAM, keys={"reqs"}), _CONSUME_STREAM],
    "rule": _DECODE_RULE + " | " + _CONSUME_RULE,
    "trusted": [
        "the partition consumers are modelled by what they forward per message (Model/Consume.lean); which goroutine runs when is the runtime's; the module's own progress commit carries the wall clock as its timestamp, which is not compared",
        "the Kafka record formats are transcribed by hand into Spec/Wire.lean (no broker offline); the only Kafka-authored bytes available are the literal fixtures of the repository's tests, which are proved to be encodings in the sense of Spec.Wire",
        "order of owner updates across topics of one member follows Go map iteration and is compared as a sorted multiset per message",
        "TimeoutSendStorageRequest dropping a request after 1 s when storage is wedged is runtime behaviour, not modelled",
    ],
    "assumptions": [],
}

_STORAGE_RULE = ("stream storage: sequential histories against the real InMemoryStorage handlers (direct synchronous calls through the verif hook). "
                 "Two profiles: 'ring' (one partition, ring sizes 1-5, 4-17 commits over 4-12 dense log positions so that out-of-order, equal and "
                 "replayed positions are frequent, min-distance 0/1/2/5 s, timestamps mostly non-decreasing along the log, broker offset moving, a "
                 "detail fetch after every commit) and 'general' (1-2 clusters, 6 group names incl. spaces/unicode, 3 topics, <=4 partitions, ring sizes 1-4, "
                 "expire-group 3600/5/1 s with commit times on the expiry boundary, allow/deny regexps, all twelve request types incl. deletions of each kind "
                 "followed by all fetches of everything, time shifting, out-of-range partitions; S reap = the cluster module's REAL groups reaper run against this storage over the application's storage channel, "
                 "Kafka listing a random subset of the groups or failing, the cluster's own burrow-<cluster> group among the stored ones; S consumerbusy = a detail fetch while a concurrent reader holds the group map's read lock). "
                 "Non-trivial = an output other than ok / empty list / nil.")
_STORAGE_STREAM = {"name": "storage", "trivial": r"^(ok( ~place=none)?|nil|list=-|gs=0 .*)$", "hist_keys": ["place"],
                   "scale": {"quick": 4, "thorough": 40}, "seeds": {"quick": 1, "thorough": 4}}

PROPS["C01"] = {
    "lean_modules": ["BurrowVerif.Props.C01"],
    "props_files": ["BurrowVerif/Props/C01.lean"],
    "anchors": ["core/internal/storage/inmemory.go", "core/protocol/storage.go"],
    "streams": [dict(_STORAGE_STREAM, keys={"lag", "bro", "kept"})],
    "rule": _STORAGE_RULE,
    "trusted": [
        "offsets outside [0, 2^63) make the int64 subtraction wrap; the theorems carry that hypothesis and wrap_witness shows why; the model reproduces the wrap (toU64/wrap64) so the correspondence also covers it",
        "ObservedTimestamp and the broker Timestamp are not modelled (no property constrains them)",
    ],
    "assumptions": ["addConsumerOffset / fetchConsumer read time.Now().Unix(): the harness waits away from second boundaries, samples the clock before and after, and discards (does not judge) a case in which the second ticked"],
}
PROPS["C02"] = {
    "lean_modules": ["BurrowVerif.Props.C02"],
    "props_files": ["BurrowVerif/Props/C02.lean"],
    "anchors": ["core/internal/storage/inmemory.go"],
    "streams": [dict(_STORAGE_STREAM, keys={"win", "kept", "iv", "md"}),
                {"name": "conc", "keys": None, "trivial": r"^ok$", "hist_keys": [],
                 "scale": {"quick": 1, "thorough": 4}, "seeds": {"quick": 1, "thorough": 2}}],
    "rule": _STORAGE_RULE + " Stream conc (shared with C08/C09): commits travel through the module's REAL main loop and worker pool (log positions from 0 upwards), so what the dispatcher does to a request before a worker sees it is part of what is compared.",
    "trusted": [
        "container/ring is modelled as a fixed circular array addressed relative to the pointer (Model/Ring.lean), validated differentially",
        "int64 overflow of minDistance*1000 and of timestamp differences is not modelled",
    ],
    "assumptions": PROPS["C01"]["assumptions"] if "C01" in PROPS else [],
}

PROPS["C04"] = {
    "lean_modules": ["BurrowVerif.Props.C04"],
    "props_files": ["BurrowVerif/Props/C04.lean"],
    "anchors": ["core/internal/evaluator/caching.go", "core/protocol/evaluator.go"],
    "streams": [dict(_STORAGE_STREAM, keys={"gs", "complete", "count", "total", "maxlag", "parts"}),
                {"name": "evalcache", "retry_transient": True, "keys": None, "spec_tags": [], "trivial": r"^(ok.*|rc=\S+ rg=\S+ gs=0 .*)$", "hist_keys": ["path"],
                 "scale": {"quick": 1, "thorough": 6}, "seeds": {"quick": 1, "thorough": 2}}],
    "rule": _STORAGE_RULE + " The 'status' op builds a fresh CachingEvaluator (empty cache) on the current real storage and requests the group status in the full or the problems-only view with minimum-complete in {0, 0.3, 0.5, 1} and allowed-lag in {0, 1, 5, 100}; groups mix partitions without commits, owner-only partitions, partial and full windows and lag ties.",
    "trusted": [
        "float32 completeness values are carried as (numerator, denominator) pairs in the theorems and compared as IEEE bit patterns in the correspondence (exact emulation in the driver)",
        "max-lag ties are broken by Go map order: compared by lag value only (maxlag_is_max states membership and maximality)",
    ],
    "assumptions": PROPS["C01"]["assumptions"],
}

_NOTIFIER_STREAM = {"name": "notifier", "retry_transient": True, "trivial": r"^(ok|notes=-)$", "hist_keys": [],
                    "scale": {"quick": 2, "thorough": 30}, "seeds": {"quick": 1, "thorough": 4}}
_NOTIFIER_RULE = ("stream notifier: every evaluation result is delivered on the reply channel a REAL responseLoop reads (nil answers and NOTFOUND among them), which hands it to "
                  "the real checkAndSendResponseToModules + notifyModule with 1-3 recording modules (threshold 1-4, send-interval 0/1/5/60 s, "
                  "send-once and send-close in all combinations, allow/deny regexps) on status sequences of 8-35 evaluations over 1-3 groups in two clusters "
                  "(statuses OK..REWIND, incidents of several lengths and severities, group records deleted and re-created); the clock is advanced by shifting the "
                  "stored instants back (hook) by k*1000+8 ms so that no interval comparison lands within 8 ms of its boundary; event ids are renamed to "
                  "first-occurrence indices, start times compared as virtual milliseconds. Non-trivial = at least one notification.")
PROPS["C13"] = {
    "lean_modules": ["BurrowVerif.Props.C13"],
    "props_files": ["BurrowVerif/Props/C13.lean"],
    "anchors": ["core/internal/notifier/coordinator.go"],
    "streams": [dict(_NOTIFIER_STREAM)],
    "rule": _NOTIFIER_RULE,
    "trusted": [
        "uuid.NewRandom() is modelled as a supply of ids that never repeats (FreshIds hypothesis): collision freedom of random v4 UUIDs is an assumption",
        "the group-list refresh deleting and re-creating a record mid-incident bounds the theorem (a record's lifetime); concurrent responses for one group are not modelled (paced by C15)",
    ],
    "assumptions": ["time.Now() inside the notifier cannot be injected: the harness freezes the clock relative to the stored instants before each evaluation (shifts them forward by the real time elapsed) and advances it by shifting them back"],
}
PROPS["C14"] = {
    "lean_modules": ["BurrowVerif.Props.C14"],
    "props_files": ["BurrowVerif/Props/C14.lean"],
    "anchors": ["core/internal/notifier/coordinator.go"],
    "streams": [dict(_NOTIFIER_STREAM)],
    "rule": _NOTIFIER_RULE,
    "trusted": PROPS["C13"]["trusted"] + ["'at most once per send interval' is read within an incident (DESIGN 4.14): Burrow itself restarts the timer at incident boundaries"],
    "assumptions": PROPS["C13"]["assumptions"],
}

PROPS["C05"] = {
    "lean_modules": ["BurrowVerif.Props.C05"],
    "props_files": ["BurrowVerif/Props/C05.lean"],
    "anchors": ["core/internal/evaluator/caching.go", "core/internal/evaluator/coordinator.go"],
    "streams": [{"name": "evalcache", "retry_transient": True, "keys": None, "trivial": r"^(ok.*|rc=\S+ rg=\S+ gs=0 .*)$", "hist_keys": ["path"],
                 "scale": {"quick": 1, "thorough": 12}, "seeds": {"quick": 1, "thorough": 3}}],
    "rule": ("stream evalcache: status requests through a persistent real CachingEvaluator (its goswarm cache, expire-cache 0/5/10 s) wired to the real storage; 3 clusters and 5 "
             "group names chosen to collide under a naive key (\"a b\"+\"c\" vs \"a\"+\"b c\", empty names), existing / unknown / expired / deleted groups, both views; storage is "
             "mutated between requests (commits, broker updates, deletions, expiry by time shifting); the cache clock is frozen before each request and advanced by ageing "
             "the entries (hook) by k*1000+8 ms; after a request answered from a cached error the background refresh is awaited. The Spec oracle flags hits that differ from a fresh "
             "evaluation when the lifetime is 0 (D16, repaired: the oracle stays armed). Non-trivial = a reply other than NOTFOUND."),
    "trusted": [
        "goswarm.Simple is modelled from its v1.10.0 source as Burrow configures it (good/bad expiry = expire-cache, no stale durations); validated differentially",
        "requests are sequential in the theorems; the concurrent clause (one goroutine per request, exactly one reply each) is runtime behaviour observed on the implementation, not proved",
        "evaluation time is zero in the model (lookups are instantaneous)",
    ],
    "assumptions": PROPS["C01"]["assumptions"],
}

_CLUSTER_STREAM = {"name": "cluster", "keys": None, "trivial": r"^(ok|stopped|start=skipped|refresh=\d deletes=- asked=- updates=- fm=\d|asked=\d del=-)$", "hist_keys": ["refresh", "fm"],
                   "scale": {"quick": 2, "thorough": 30}, "seeds": {"quick": 1, "thorough": 4}}
_CLUSTER_RULE = ("stream cluster: the real KafkaCluster.getOffsets (hook) against a scripted fake Kafka client and brokers (verifhook.FakeKafka: Topics/Partitions/Leader/"
                 "GetAvailableOffsets answered from the op line, every call recorded, OffsetRequest blocks read by reflection): layouts of 0-4 topics x 0-4 partitions over 3 brokers with "
                 "leaderless partitions, evolving over 1-7 consecutive cycles (topics appearing, disappearing, re-appearing, losing all leaders), with Topics() failures, Partitions() failures "
                 "at any topic, leader lookups that answer differently at request time, failing broker calls, per-partition error codes, metadata ticks. Compared: RefreshMetadata calls, "
                 "delete-topic requests, blocks asked of each broker, broker-offset updates (offset and partition count), the fetchMetadata flag. Non-trivial = any request, update or deletion. "
                 "Every third case runs the module's REAL mainLoop (hook ff01871: the three tickers are channels the harness owns; real Stop at the end): offset ticks, metadata ticks "
                 "(also two in a row) and groups-reaper ticks in any order; a stand-in for storage takes every request off the storage channel and answers the reaper's StorageFetchConsumers "
                 "with a scripted listing (or a nil reply); ListConsumerGroups answers a scripted set or fails; compared per tick: the cycle's output as above, and for a reaper tick whether "
                 "storage was asked and the delete-group requests in order (groups g0-g3, G0, the cluster's own burrow-c0 and another cluster's burrow-c1). "
                 "Every sixth case runs the refresh cycle against a REAL sarama.Client connected to three of sarama's own mock brokers (TCP on localhost), through Burrow's real shim "
                 "(helpers.BurrowSaramaClient), as in production: metadata answers built by hand (leaderless = leader -1 + LEADER_NOT_AVAILABLE), offset answers with per-partition error codes, "
                 "brokers that come back on a new address under the same id; every cycle starts with a metadata refresh (the real client answers leader lookups from what it read last); "
                 "asked blocks and full metadata requests are read from the mock brokers' request histories. K conf: the module's REAL Configure with each refresh interval set or absent; "
                 "K start (twice per quick run): the whole module for real — Configure, Start (its own sarama client connects to the mock brokers, one fetch before any ticker), the first tick of its real "
                 "one-second ticker, Stop — compared cycle by cycle.")
PROPS["C11"] = {
    "lean_modules": ["BurrowVerif.Props.C11"],
    "props_files": ["BurrowVerif/Props/C11.lean"],
    "anchors": ["core/internal/cluster/kafka_cluster.go", "core/internal/helpers/sarama.go"],
    "streams": [dict(_CLUSTER_STREAM, keys={"asked", "updates", "fm", "refresh"})],
    "rule": _CLUSTER_RULE,
    "trusted": [
        "everything Kafka answers is a parameter of the model (Env); brokers that answer are assumed faithful (answer exactly the requested partitions) in the exactly-one/none theorems",
        "the per-broker goroutines run in parallel in the code: outputs are compared as sorted multisets; send time-outs and an answer with an empty Offsets slice are not modelled",
    ],
    "assumptions": [],
}
PROPS["C12"] = {
    "lean_modules": ["BurrowVerif.Props.C12"],
    "props_files": ["BurrowVerif/Props/C12.lean"],
    "anchors": ["core/internal/cluster/kafka_cluster.go", "core/internal/helpers/sarama.go"],
    "streams": [dict(_CLUSTER_STREAM, keys={"deletes", "refresh", "fm"})],
    "rule": _CLUSTER_RULE,
    "trusted": PROPS["C11"]["trusted"],
    "assumptions": [],
}

PROPS["C09"] = {
    "lean_modules": ["BurrowVerif.Props.C09"],
    "props_files": ["BurrowVerif/Props/C09.lean"],
    "anchors": ["core/internal/storage/inmemory.go"],
    "streams": [dict(_STORAGE_STREAM, keys={"list", "offs", "win", "lag", "own", "bro", "gs", "parts", "count", "exp", "iv", "md"}),
                {"name": "conc", "keys": None, "trivial": r"^ok$", "hist_keys": [],
                 "scale": {"quick": 1, "thorough": 4}, "seeds": {"quick": 1, "thorough": 2}},
                dict(_CLUSTER_STREAM, keys={"del", "asked"})],
    "rule": _STORAGE_RULE + " Stream cluster (shared with C11/C12; judged here on the groups reaper's ticks: which groups it asks storage to delete): " + _CLUSTER_RULE + " Stream conc (shared with C08): the module's real worker pool; in the 'ordered' batches every group's requests — commits, owner updates, deletions, detail reads — come from one "
            "lane, so each group's outcome is determined by its submission order and is compared with the model: a deletion that overtakes an earlier commit of its group shows as a resurrected group."
            " After every deletion of any kind all six fetch kinds are issued for every known cluster, group and topic (the frame condition, observed); expire-group 1/5 s cases place commit times on and around the expiry boundary and age the store by time shifting.",
    "trusted": [
        "a status query is answered through the evaluator cache, whose permitted staleness is C05's subject: here status is evaluated by a fresh evaluator on the current storage",
        "the corner 'delete-group-topic on a group left with no topics removes the group, also when the topic was not among them' is what the code does and what deleteGroupTopic_removes states",
    ],
    "assumptions": PROPS["C01"]["assumptions"],
}
PROPS["C10"] = {
    "lean_modules": ["BurrowVerif.Props.C10"],
    "props_files": ["BurrowVerif/Props/C10.lean"],
    "anchors": ["core/internal/storage/inmemory.go", "core/internal/consumer/kafka_client.go", "core/internal/consumer/kafka_zk_client.go", "core/internal/notifier/coordinator.go"],
    "streams": [dict(_STORAGE_STREAM, keys={"list", "win", "own", "acc"}),
                dict(_DECODE_STREAM, keys={"reqs", "acc"}),
                dict(_NOTIFIER_STREAM, keys={"notes", "lists"}),
                {"name": "zkreader", "retry_transient": True, "keys": None, "trivial": r"^(ok|fw=-)$", "hist_keys": [],
                 "scale": {"quick": 1, "thorough": 4}, "seeds": {"quick": 1, "thorough": 1}}],
    "rule": ("four streams, each with allow/deny regexp pairs (none, either, both, overlapping): " + _STORAGE_RULE + " | " + _DECODE_RULE + " | " + _NOTIFIER_RULE +
             " | stream zkreader: the REAL Zookeeper offsets reader (KafkaZkClient through its real Configure and Start, every watch goroutine) on an in-memory Zookeeper tree with real watch "
             "semantics (one-shot child/data/exists watches, all invalidated on session expiry); groups accepted and rejected by the lists, new groups/topics/partitions and new commits after Start, "
             "offset nodes whose text is not a number, session expiry + reconnection; everything the module sends to storage after each op (offset and owner updates with order = the node's "
             "modification id) is compared as a sorted multiset with the model. Non-trivial = an op after which something is forwarded."),
    "trusted": [
        "regexp matching is an oracle bit computed by the harness with Go's regexp on the same pattern and group name and handed to the model",
        "Burrow's own progress report (group burrow-<module>) is a synthetic commit, not a group read from the topic, and is out of scope (DESIGN 4.10)",
        "the Zookeeper reader is modelled by what it forwards (Model/ZkReader.lean); its watch bookkeeping is exercised for real against the in-memory tree, partitions created densely; strconv.ParseInt is an oracle bit",
    ],
    "assumptions": PROPS["C01"]["assumptions"],
}

PROPS["C20"] = {
    "lean_modules": ["BurrowVerif.Props.C20"],
    "props_files": ["BurrowVerif/Props/C20.lean"],
    "anchors": ["core/internal/notifier/helpers.go", "config/default-email.tmpl", "config/default-http-post.tmpl", "config/default-http-delete.tmpl",
                "config/default-slack-post.tmpl", "config/default-slack-delete.tmpl", "core/protocol/evaluator.go", "core/protocol/storage.go"],
    "streams": [{"name": "tmpl", "keys": None, "trivial": r"^r=(err|parse-error)", "hist_keys": ["r", "json", "gen"],
                 "scale": {"quick": 1, "thorough": 12}, "seeds": {"quick": 1, "thorough": 3}}],
    "rule": ("stream tmpl: per case, each of the five shipped templates (loaded from /repo/config with the parse function the notifier's Configure installs) is executed through the real "
             "executeTemplate on a generated status inside the status invariant with JSON-safe names, one shipped template on arbitrary data (names with quotes, backslashes, control "
             "characters; nil partitions / nil Start / nil End), and six GENERATED templates over the modelled fragment (field chains incl. typos and nil-pointer paths through Maxlag, "
             "methods String/Format with wrong arities, len/index/eq/jsonencoder/maxlag/add/minus/multiply/divide with right and wrong kinds, pipelines, if/else, range/else). Statuses: any "
             "status value incl. out-of-range, 0-6 listed partitions, max-lag nil / OK partition / listed partition, extreme integers, 11 float32 completeness values. The serialised Go "
             "parse tree is executed by the Lean model; compared: error/no error, the rendered bytes, JSON validity (Lean recogniser vs json.Valid), and equality of the parse tree with the "
             "generated one the theorems are about. Non-trivial = a successful rendering."),
    "trusted": [
        "text/template is modelled for the fragment in use (Model/Tmpl.lean mirrors go1.24 exec.go: method-before-field lookup, nil-pointer receivers, argument assignability, builtins); anything "
        "outside evaluates to `unsup` and the checker rejects it; validated differentially on generated templates",
        "renderings by Go library code are parameters of the theorems (arbitrary) and oracle values in the correspondence: fmt of float32, time.Format, json.Marshal of the partitions",
        "the schema of the template data and the parse trees are regenerated on every run by reflection over the value captured inside a real executeTemplate call and by text/template/parse (harness facts)",
        "the status invariant (listed partitions are non-nil with non-nil Start/End) is proved of the evaluator model (problem_partition_has_ends, notifier_view_meets_invariant), whose tie to the code is C03/C04's",
        "JSON clause: the Lean recogniser Model/Json.lean judges the model's rendering and agrees with json.Valid on every real rendering of the run (observed, sampled); see level text for the theorem",
    ],
    "assumptions": [],
}

_HTTP_RULE = ("stream http: the real httpserver router (real Configure, in-process via httptest) wired to the real InMemoryStorage and a persistent real CachingEvaluator; per case a configuration "
              "(2 clusters incl. a name with a space, client profile, consumer/storage/evaluator/notifier modules) is loaded into viper from generated TOML, storage is populated (topics with "
              "and without leaderless partitions, 4 group names incl. dotted/unicode/space), then 25-65 steps mix commits, broker and owner updates, every deletion route (storage request with "
              "and without topic, the cluster module's and the reaper's sequences incl. their Delete*Metrics calls, HTTP DELETE), expiry by time shifting, cache ageing, /metrics scrapes and GETs of "
              "every /v3 route with parameters from {existing, unknown, case variants, dotted viper paths, spaces, unicode, %2F, %00, dot segments} plus trailing slashes, doubled slashes, upper-cased "
              "prefixes, extra segments, other methods; each case ends with a scrape after the cache lifetime and a read of everything. Responses are decoded with the harness's own structs for the "
              "documented JSON (not Burrow's types) and compared field by field with the model; Prometheus text is parsed into series. Non-trivial = a 200 answer with a payload or a non-empty scrape.")
_HTTP_STREAM = {"name": "http", "retry_transient": True, "trivial": r"^(ok|code=(404|tsr|405|301|307).*|code=200 series=-)$", "hist_keys": ["code", "kind"],
                "scale": {"quick": 1, "thorough": 10}, "seeds": {"quick": 1, "thorough": 3}}
# C06: "processing finishes without terminating the process" — what the decoder forwards is executed by storage's workers,
# which recover from nothing: the storage stream is judged here on its bare outcome tokens only (panic / ok / nil)
PROPS["C06"]["streams"].append(dict(_STORAGE_STREAM, keys=set()))
PROPS["C06"]["rule"] += (" Stream storage (shared with C01/C08/…), judged here on crashes only: every kind of request the decoder can forward — commits and owner updates for partitions the topic "
                         "does not have (beyond the count; negative), for unknown clusters, groups and topics — executed by the real storage handlers.")
# C04 also judges the whole HTTP path: status and lag payloads before and after a /metrics scrape within the cache lifetime
PROPS["C04"]["streams"].append(dict(_HTTP_STREAM, keys=None, spec_tags=[]))
PROPS["C04"]["rule"] += (" Stream http (shared with C16/C17): the real HTTP server on the real evaluator and storage; status and lag payloads are compared whole, also after a /metrics scrape "
                         "inside the cache lifetime (what one reader does to the cached evaluation is seen by the next). Stream evalcache: two requests for one group in flight together may ask for different views (S cqdup): each must get the view it asked for.")
PROPS["C16"] = {
    "lean_modules": ["BurrowVerif.Props.C16"],
    "props_files": ["BurrowVerif/Props/C16.lean"],
    "anchors": ["core/internal/httpserver/coordinator.go", "core/internal/httpserver/kafka.go", "core/internal/httpserver/config.go", "core/internal/httpserver/structs.go"],
    "streams": [dict(_HTTP_STREAM, keys=None, spec_tags=["D15", "D18"])],
    "rule": _HTTP_RULE,
    "trusted": [
        "httprouter is modelled by its documented contract (Model/Http.lean: route); for an unmatched path ending in '/' its answer (redirect or 404) depends on the shape of its radix tree and both are admitted",
        "net/http (connection handling, header limits, URL parsing: the decoded path is taken from net/url), TLS and the listeners are not modelled",
        "the route table is regenerated from coordinator.go on every run (harness facts, go/ast) and the theorems quantify over it",
    ],
    "assumptions": PROPS["C01"]["assumptions"],
}
PROPS["C17"] = {
    "lean_modules": ["BurrowVerif.Props.C17"],
    "props_files": ["BurrowVerif/Props/C17.lean"],
    "anchors": ["core/internal/httpserver/prometheus.go", "core/internal/httpserver/kafka.go", "core/internal/storage/inmemory.go", "core/protocol/storage.go", "core/protocol/evaluator.go"],
    "streams": [dict(_HTTP_STREAM, keys=None, spec_tags=["D8"]),
                {"name": "conc", "keys": None, "trivial": r"^ok$", "hist_keys": [],
                 "scale": {"quick": 1, "thorough": 4}, "seeds": {"quick": 1, "thorough": 2}}],
    "rule": _HTTP_RULE + " | stream conc (shared with C08/C09): the storage module's real worker pool; a deletion that overtakes an earlier commit of its group (wrong routing) shows as a group that "
            "outlives its deletion.",
    "trusted": [
        "the Prometheus client library is modelled as a map from (vector, label values) to the last value set; the text exposition is parsed by the harness",
        "a status (JSON or metrics) is served through the evaluator cache: staleness within the cache lifetime is C05's allowance; 'nothing outlives its deletion' is claimed for reads after the lifetime",
        "float64 conversion of uint64/int64 gauge values is exact below 2^53 (generator stays below)",
    ],
    "assumptions": PROPS["C01"]["assumptions"],
}

PROPS["C18"] = {
    "lean_modules": ["BurrowVerif.Props.C18"],
    "props_files": ["BurrowVerif/Props/C18.lean"],
    "anchors": ["core/internal/httpserver/config.go", "core/internal/httpserver/kafka.go", "core/internal/httpserver/structs.go"],
    "streams": [{"name": "confhttp", "retry_transient": True, "keys": None, "spec_tags": ["D20"], "trivial": r"^(ok|code=404.*)$", "hist_keys": ["code", "kind"],
                 "scale": {"quick": 2, "thorough": 20}, "seeds": {"quick": 1, "thorough": 3}},
                dict(_HTTP_STREAM, keys={"code", "ct", "err", "hdr", "kind", "key", "mod", "list", "coord", "leak"}, spec_tags=[])],
    "rule": ("stream confhttp: generated configurations (0-2 SASL profiles with passwords, 0-1 TLS profiles, 1-3 client profiles referring to them, 1-2 clusters, 0-2 consumers of both "
             "classes, storage, evaluator, 0-3 notifiers of every class — http with basic-auth password, email with SMTP password, slack, null — with and without extras; module names incl. "
             "spaces, unicode, upper case, the words 'password' and 'extras', and names that themselves contain dots — 'prof0.x', 'x.y.z', '.lead', 'dot.', and a module named like another "
             "module's extras table (the D20 pair) —) rendered to TOML TWICE with two different random 23-character passwords and loaded into viper; every config and "
             "cluster route is requested with every configured name, 'nope', and dotted names reaching towards .password/.username/.extras/.class-name/.servers and across sections. Each "
             "response is compared field by field with the model's (which is given the flattened configuration), so the two rounds are compared through the model; additionally (a TEST, "
             "labelled as such) no response body or header may contain any of the configured password values (leak=1 otherwise). Non-trivial = a 200 answer. | " + _HTTP_RULE),
    "trusted": [
        "viper is modelled as a flattened map from raw (lower-cased) key paths to values, with viper's longest-prefix-first, backtracking resolution of dotted keys (Model/Http.lean Cfg.search/norm) "
        "and GetStringMapString showing nested tables as \"\"; validated differentially incl. dotted request names AND dotted configured names; the override layer (viper.Set of the default "
        "listener) is read per top-level key and assumed not to overlap the file's keys",
        "log output and the process environment are not modelled (AutomaticEnv is only set up in main.go)",
        "the list of viper key literals of package httpserver is regenerated from the source (go/ast) on every run",
    ],
    "assumptions": [],
}

PROPS["C19"] = {
    "lean_modules": ["BurrowVerif.Props.C19"],
    "props_files": ["BurrowVerif/Props/C19.lean"],
    "anchors": ["core/burrow.go", "main.go", "core/internal/helpers/validation.go", "core/internal/helpers/sarama.go", "core/internal/storage/inmemory.go",
                "core/internal/consumer/kafka_client.go", "core/internal/cluster/kafka_cluster.go", "core/internal/notifier/coordinator.go", "core/internal/httpserver/coordinator.go"],
    "streams": [{"name": "config", "keys": None, "trivial": r"^valid=1 ", "hist_keys": ["site", "start", "valid"],
                 "scale": {"quick": 1, "thorough": 10}, "seeds": {"quick": 1, "thorough": 3}}],
    "rule": ("stream config: per case a valid base configuration (zookeeper, 0-1 storage and evaluator modules, 0-2 listeners incl. TLS with real generated PEM files, 0-2 client profiles with "
             "versions and TLS, 0-2 clusters, 0-2 consumers of both classes, 0-2 notifiers of every class with real template files) and six variants, each obtained by one edit — sometimes two, in "
             "different coordinators — from a catalogue of 23 edit families (~70 concrete edits) covering every validation site of the inventory, invalidating ones and validity-preserving ones "
             "(blank listener host, unread close template, bad key pair without CA, unknown profile on a kafka_zk consumer, upper-cased cluster reference, any port on the SMTP server). Each is "
             "rendered to TOML, loaded into viper and run through the REAL configuration phase (newCoordinators + configureCoordinators) and then the REAL core.Start (always for refused "
             "configurations; for accepted ones when nothing needs the network). Compared with the model, which is given the facts and oracle bits: accepted/refused, WHICH validation fired "
             "(message class), and the result of Start (returned 0 / returned 1 / panicked). Non-trivial = a refused configuration."),
    "trusted": [
        "what library code decides is an oracle bit computed by the harness with the same calls Burrow uses: regexp.Compile, template parsing with the helper map, helpers.ValidateHostList / "
        "ValidateHostPort / ValidateZookeeperPath, parseKafkaVersion, os.ReadFile, tls.LoadX509KeyPair",
        "the harness's rendering of a structured description to TOML and to facts; viper's own reading of TOML",
        "module Start methods (network) are not modelled; 'without starting any subsystem' is a theorem of the model (Start returns before the start loop) and is observed only as Start's return value",
        "Go map iteration makes the order of modules inside one coordinator random: the generator puts at most one failing module in a coordinator",
        "the list of panic sites reachable from Configure is regenerated from the source (go/ast) on every run and pinned by catalogue_is_the_sources",
    ],
    "assumptions": [],
}

PROPS["C08"] = {
    "race": True,
    "search_on_broken": True,
    "lean_modules": ["BurrowVerif.Props.C08"],
    "props_files": ["BurrowVerif/Props/C08.lean"],
    "anchors": ["core/internal/storage/inmemory.go", "core/internal/storage/coordinator.go"],
    "streams": [{"name": "conc", "keys": None, "trivial": r"^ok$", "hist_keys": [],
                 "scale": {"quick": 1, "thorough": 8}, "seeds": {"quick": 1, "thorough": 3}},
                dict(_STORAGE_STREAM, keys={"kept"})],
    "rule": ("stream storage (sequential histories, see C01): only the `kept` observation is judged here — every consumer detail reply handed out since init still renders as it did when it was handed out, after everything that happened later (a reply is a value: it shares nothing mutable with the store). stream conc: the storage module's REAL workers and main loop (real Start with 2-8 workers, queue depth 1); requests enter through the module's channel from 2-16 concurrent lanes. "
             "'ordered' batches: every group belongs to one lane and no lane writes broker state, so the outcome is determined by per-group submission order — every consumer-fetch reply of the batch is "
             "compared with the model run lane after lane; 'chaos' batches (150-400 requests per lane): broker updates with changing partition counts, topic deletion and re-creation, commits, owner "
             "updates, group deletions and every fetch type on the same two topics — judged on the implementation: the process survives (a panic or a fatal 'concurrent map' error kills the harness and is "
             "reported with the batch as replay), the batch completes within 20 s (no deadlock), every reply equals its own rendering taken at receipt after all later writes (snapshot immutability), every "
             "consumer reply is internally consistent (window shape: blanks first then strictly increasing log positions; current lag = max(0, newest broker offset of the reply - newest commit)). The "
             "thorough tier runs the same under the Go race detector. Non-trivial = a batch with at least one compared reply."),
    "trusted": [
        "Go's memory model below the lock level, channel fairness and sync.RWMutex writer preference are not modelled; the race detector (thorough tier) and the stress run observe, they do not prove",
        "the step from 'every shared access is inside a critical section of its lock, and the discipline is race-free' to 'critical sections are atomic' (Lipton reduction / DRF-SC) is standard reasoning, trusted",
        "the lock skeleton of the handlers is regenerated from inmemory.go by go/ast on every run (harness facts)",
    ],
    "assumptions": PROPS["C01"]["assumptions"],
}

PROPS["C15"] = {
    "lean_modules": ["BurrowVerif.Props.C15"],
    "props_files": ["BurrowVerif/Props/C15.lean"],
    "anchors": ["core/internal/notifier/coordinator.go", "core/internal/zookeeper/coordinator.go", "core/internal/helpers/zookeeper.go"],
    "streams": [{"name": "zkloop", "retry_transient": True, "keys": None, "spec_tags": ["D12"], "trivial": r"^$", "hist_keys": ["gap", "locks", "unlocks"],
                 "scale": {"quick": 1, "thorough": 6}, "seeds": {"quick": 1, "thorough": 3}}],
    "rule": ("stream zkloop: the REAL manageEvalLoop and sendEvaluatorRequests (hook: started exactly as Start does) with the REAL zookeeper coordinator's session-event loop, against a scripted fake "
             "Zookeeper client and lock, in real time (scenarios of 1-4 s, run 16 at a time): 1-3 cycles of 'Lock() fails 0-2 times, succeeds, session expires 200-1250 ms later (StateExpired event), "
             "reconnects 30-400 ms later (StateConnected)', 1-3 groups, shortest interval 1 s; every seventh scenario delivers the expiry INSIDE the successful Lock() call (the lost wake-up). Observed: "
             "Lock and Unlock calls and every request on App.EvaluatorChannel with its arrival time; compared with the model's trace: number of Lock/Unlock calls, whether any evaluation was issued more "
             "than 60 ms after an expiry broadcast and before the next successful Lock (gap), whether the first owned window contains an evaluation, and pacing (no group evaluated twice within 1 s - 30 ms). "
             "Non-trivial = every scenario."),
    "trusted": [
        "partial by nature: the theorems are over the modelled atomic steps of the manager, the request loops and the environment; preemption inside them, the unsynchronised doEvaluations bool, the "
        "non-exclusive RLock under which LastEval is updated (two concurrent request loops) and real timing are not modelled",
        "the correspondence runs in real time with 30-60 ms margins around every scripted event; zk lock recipe and session semantics are the fake's (an expiry removes the lock node)",
        "Unlock() returning an error after an expiry makes Burrow panic by design (coordinator.go:328): modelled (unlockFail -> crashed), not exercised on the implementation",
    ],
    "assumptions": [],
}

# C05 also judges the status and lag routes of the HTTP API (the request's group must be the one named in the URL)
PROPS["C05"]["streams"].append(dict(_HTTP_STREAM, keys=None, spec_tags=[]))


# Round 8: the incident records and the lock loop meet in two places.
# C13/C14 judge the zkloop stream on `inc` (the incident a group was in before the lock was lost and regained is the one
# its next result belongs to); C15 judges the notifier stream's notes (a refresh that cannot reach storage must leave the
# group records — LastEval included — alone, or groups are evaluated again before their interval has passed).
_ZK_FOR_INCIDENTS = dict(PROPS["C15"]["streams"][0], keys={"inc"}, spec_tags=[])
PROPS["C13"]["streams"].append(_ZK_FOR_INCIDENTS)
PROPS["C14"]["streams"].append(_ZK_FOR_INCIDENTS)
PROPS["C13"]["rule"] += " Stream zkloop (shared with C15), judged here on `inc`: group g0 is put into an announced incident, the REAL manageEvalLoop loses and regains the Zookeeper lock as scripted, and g0's next result must carry the same event id and start."
PROPS["C14"]["rule"] += " Stream zkloop (shared with C15), judged here on `inc`: an incident announced before the lock was lost is not announced afresh after it is regained."
PROPS["C15"]["streams"].append(dict(_NOTIFIER_STREAM, keys={"notes"}))
PROPS["C15"]["rule"] += " Stream notifier (shared with C13/C14), judged here on the notifications: its refresh ops include storage that takes no listing request before the time-out; the group records (LastEval among them) must survive that."

# C20's "configured extras" clause: what Configure hands a module as extras is what was configured (N conf, ex=)
PROPS["C20"]["streams"].append(dict(_NOTIFIER_STREAM, keys={"ex"}))
PROPS["C20"]["rule"] += " Stream notifier (shared with C13/C14), judged here on `ex`: the REAL Coordinator.Configure on a notifier section whose modules have extras containing `$`, `${…}` and `%`; the extras each module's templates will be given must be the configured ones."

# The HTTP streams build their handler through the whole configuration phase of Start where that is possible
for _pid in ("C16", "C17", "C18", "C04", "C05"):
    if any(st.get("name") in ("http", "confhttp") for st in PROPS[_pid]["streams"]):
        PROPS[_pid]["rule"] += (" The handler requests are sent to is what the HTTP server's listener serves after the WHOLE configuration phase of Start (hook: newCoordinators + configureCoordinators, "
                                "every coordinator's real Configure in Start's order; defaults they set are merged into the model's configuration) when the configuration has no dotted keys and no other "
                                "coordinator refuses it; otherwise after the HTTP server's own Configure alone.")
