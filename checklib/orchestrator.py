import argparse, fcntl, hashlib, json, os, re, shutil, subprocess, sys, time

ROOT = os.path.dirname(os.path.dirname(os.path.abspath(__file__)))
REPO = os.environ.get("VERIF_REPO", "/repo")
LEAN = os.path.join(ROOT, "lean")
BUILD = os.path.join(ROOT, ".build")
HARNESS_BIN = os.path.join(BUILD, "harness")
EXTRACT_BIN = os.path.join(BUILD, "extract")
DRIVER_BIN = os.path.join(LEAN, ".lake", "build", "bin", "bvdriver")
EVIDENCE = os.path.join(ROOT, "evidence")
REPLAYS = os.path.join(ROOT, "replays")
CORPUS = os.path.join(ROOT, "corpus")

ALLOWED_AXIOMS = {"propext", "Classical.choice", "Quot.sound"}
FORBIDDEN = re.compile(r"\b(sorry|admit|native_decide|bv_decide|implemented_by|unsafe)\b|^\s*axiom\s|maxHeartbeats\s+0\b")

from props import PROPS, GLOBAL_TRUSTED  # noqa: E402


def goenv():
    e = dict(os.environ)
    e["GOFLAGS"] = "-mod=mod"
    e["GOPROXY"] = "off"
    e.pop("GOSUMDB", None)  # GOSUMDB=off breaks the cached-toolchain switch (DESIGN §7)
    e.setdefault("GOCACHE", os.path.join(BUILD, "gocache"))
    e["VERIF_REPO"] = REPO
    return e


def sh(cmd, cwd=None, env=None, timeout=None, stdin=None, mem_limit=None):
    pre = None
    if mem_limit:
        import resource
        def pre():
            resource.setrlimit(resource.RLIMIT_AS, (mem_limit, mem_limit))
    try:
        p = subprocess.run(cmd, cwd=cwd, env=env, timeout=timeout, stdin=stdin, preexec_fn=pre,
                           stdout=subprocess.PIPE, stderr=subprocess.STDOUT, text=True, errors="replace")
    except subprocess.TimeoutExpired as e:
        out = e.stdout.decode(errors="replace") if isinstance(e.stdout, bytes) else (e.stdout or "")
        return 124, out + "\n[timeout after %ss]" % timeout
    return p.returncode, p.stdout


class Lock:
    """serialise the shared build steps between concurrently running checks"""
    def __init__(self, name):
        os.makedirs(BUILD, exist_ok=True)
        self.path = os.path.join(BUILD, name + ".lock")
    def __enter__(self):
        self.f = open(self.path, "w")
        fcntl.flock(self.f, fcntl.LOCK_EX)
        return self
    def __exit__(self, *a):
        fcntl.flock(self.f, fcntl.LOCK_UN)
        self.f.close()


def sha(path):
    h = hashlib.sha256()
    try:
        with open(path, "rb") as f:
            h.update(f.read())
    except OSError:
        return None
    return h.hexdigest()[:16]


# ------------------------------------------------------------------------------------------------
# build steps

def strip_comments(text):
    # remove /- ... -/ (nested not handled beyond one level; good enough for the audit) and -- ...
    out, i, depth = [], 0, 0
    while i < len(text):
        if text.startswith("/-", i):
            depth += 1; i += 2; continue
        if text.startswith("-/", i) and depth > 0:
            depth -= 1; i += 2; continue
        if depth == 0:
            if text.startswith("--", i):
                j = text.find("\n", i)
                i = len(text) if j < 0 else j
                continue
            out.append(text[i])
        elif text[i] == "\n":
            out.append("\n")
        i += 1
    return "".join(out)


def grep_audit():
    """forbidden constructs anywhere in the Lean sources (outside comments and string literals)"""
    hits = []
    for base in ("BurrowVerif", "Driver"):
        for dp, _, fns in os.walk(os.path.join(LEAN, base)):
            for fn in fns:
                if not fn.endswith(".lean"):
                    continue
                p = os.path.join(dp, fn)
                code = strip_comments(open(p, encoding="utf-8").read())
                code = re.sub(r'"(\\.|[^"\\])*"', '""', code)
                for n, line in enumerate(code.split("\n"), 1):
                    if FORBIDDEN.search(line):
                        hits.append(f"{os.path.relpath(p, LEAN)}:{n}: {line.strip()[:120]}")
    return hits


def run_extract(log):
    """regenerate Generated/*.lean + facts.json from /repo's working tree (write-if-changed).
    The fact generator is part of the harness binary (`harness facts`): it reflects over the real types
    and parses the real sources, so the harness must have been built against the current tree first."""
    gen_dir = os.path.join(LEAN, "BurrowVerif", "Generated")
    tmp = os.path.join(BUILD, "generated.tmp")
    shutil.rmtree(tmp, ignore_errors=True)
    os.makedirs(tmp)
    env = goenv()
    env["VERIF_REPO"] = REPO
    rc, out = sh([HARNESS_BIN, "facts", "-out", tmp], env=env, timeout=600)
    log.append(("facts", rc, out[-4000:]))
    if rc != 0:
        return False, {}
    digests = {}
    for fn in sorted(os.listdir(tmp)):
        a, b = os.path.join(tmp, fn), os.path.join(gen_dir, fn)
        digests[fn] = sha(a)
        if sha(a) != sha(b):
            shutil.copyfile(a, b)
    return True, digests


def theorem_names(lean_file):
    """(namespace-qualified) names of the theorems declared in a Props file"""
    text = strip_comments(open(os.path.join(LEAN, lean_file), encoding="utf-8").read())
    ns, names = [], []
    for line in text.split("\n"):
        m = re.match(r"\s*namespace\s+(\S+)", line)
        if m:
            ns.append(m.group(1)); continue
        m = re.match(r"\s*end\s+(\S+)", line)
        if m and ns and ns[-1] == m.group(1):
            ns.pop(); continue
        m = re.match(r"\s*(?:@\[[^\]]*\]\s*)?(?:private\s+|protected\s+)?theorem\s+(\S+)", line)
        if m and not re.match(r"\s*private", line):
            names.append(".".join(ns + [m.group(1)]))
    n_examples = len(re.findall(r"^\s*example\b", text, flags=re.M))
    return names, n_examples


def lake_build(targets, log, clean=False):
    if clean:
        # thorough: rebuild the project's own modules from scratch (Mathlib oleans are pre-installed)
        shutil.rmtree(os.path.join(LEAN, ".lake", "build"), ignore_errors=True)
    rc, out = sh(["lake", "build"] + targets, cwd=LEAN, timeout=3600)
    log.append(("lake-build " + " ".join(targets), rc, out[-6000:]))
    return rc == 0, out


def axioms_audit(prop_id, cfg, log):
    """#print axioms for every property theorem; returns (obligations, discharged, details)"""
    names, n_examples = [], 0
    for f in cfg["props_files"]:
        n, e = theorem_names(f)
        names += n; n_examples += e
    audit_dir = os.path.join(BUILD, "audit")
    os.makedirs(audit_dir, exist_ok=True)
    path = os.path.join(audit_dir, prop_id + ".lean")
    with open(path, "w") as f:
        for m in cfg["lean_modules"]:
            f.write(f"import {m}\n")
        for n in names:
            f.write(f"#print axioms {n}\n")
    rc, out = sh(["lake", "env", "lean", path], cwd=LEAN, timeout=1800)
    log.append(("axioms-audit", rc, out[-6000:]))
    details, discharged = {}, 0
    # output: "'name' depends on axioms: [a, b]" or "'name' does not depend on any axioms"
    for m in re.finditer(r"'([^']+)' (does not depend on any axioms|depends on axioms: \[([^\]]*)\])", out.replace("\n ", " ")):
        ax = [] if m.group(3) is None else [a.strip() for a in m.group(3).replace("\n", " ").split(",") if a.strip()]
        details[m.group(1)] = ax
    bad = {}
    for n in names:
        if n in details and set(details[n]) <= ALLOWED_AXIOMS:
            discharged += 1
        else:
            bad[n] = details.get(n, "not reported")
    return len(names), discharged, n_examples, details, bad, rc


def build_harness(log):
    rc, out = sh(["go", "build", "-tags", "verif", "-o", HARNESS_BIN, "."],
                 cwd=os.path.join(ROOT, "harness"), env=goenv(), timeout=1200)
    log.append(("harness-build", rc, out[-6000:]))
    return rc == 0, out


# ------------------------------------------------------------------------------------------------
# correspondence

def parse_out(line):
    d = {}
    for tok in line.split(" "):
        if "=" in tok:
            k, v = tok.split("=", 1)
            d[k] = v
        elif tok:
            d["_" + tok] = ""
    return d


def line_diff(a, b, keys):
    """keys on which two canonical output lines differ, restricted to `keys` (None = all).
    Bare tokens (panic, bad-op, NOTFOUND …) are always compared."""
    da, db = parse_out(a), parse_out(b)
    diff = []
    for k in set(da) | set(db):
        if k.startswith("~"):
            continue  # model-only coverage annotations
        if keys is not None and not k.startswith("_") and k not in keys:
            continue
        va, vb = da.get(k), db.get(k)
        if va != vb:
            # the model may admit several values where the code's choice is arbitrary (e.g. Go map iteration order):
            # "(x|y|z)" on the model side matches any of its alternatives
            if vb is not None and vb.startswith("(") and vb.endswith(")") and va in vb[1:-1].split("|"):
                continue
            diff.append(k)
    return sorted(diff)


def split_cases(lines):
    """[(header, [lines])] — a case starts at a '#case' line"""
    cases, cur = [], None
    for ln in lines:
        if ln.startswith("#case"):
            cur = (ln, [])
            cases.append(cur)
        else:
            if cur is None:
                cur = ("#case -", [])
                cases.append(cur)
            cur[1].append(ln)
    return cases


HARNESS_RACE_BIN = os.path.join(BUILD, "harness-race")
USE_RACE = {"on": False}


def build_race_harness(log):
    rc, out = sh(["go", "build", "-race", "-tags", "verif", "-o", HARNESS_RACE_BIN, "."],
                 cwd=os.path.join(ROOT, "harness"), env=goenv(), timeout=1800)
    log.append(("harness-race-build", rc, out[-3000:]))
    return rc == 0


def run_impl(stream, ops_path, tag, timeout=1500):
    out, res = ops_path + f".{tag}.impl", ops_path + f".{tag}.resolved"
    env = goenv()
    env.setdefault("GOMEMLIMIT", "6GiB")
    if USE_RACE["on"]:
        # the real code under the Go race detector: a reported race ends the process (a crash with the report)
        env["GORACE"] = "halt_on_error=1 exitcode=66"
        rc, txt = sh([HARNESS_RACE_BIN, "run", stream, "-in", ops_path, "-out", out, "-resolved", res], env=env, timeout=timeout * 3)
        return rc, txt, out, res
    # the real code runs in a child with an address-space cap: a ballooning allocation is then a
    # crash of the child (reported with the op that caused it), not a dead machine
    rc, txt = sh([HARNESS_BIN, "run", stream, "-in", ops_path, "-out", out, "-resolved", res], env=env, timeout=timeout,
                 mem_limit=6 << 30)
    return rc, txt, out, res


def run_model(resolved_path, out_path):
    with open(resolved_path) as fin, open(out_path, "w") as fout:
        p = subprocess.run([DRIVER_BIN], stdin=fin, stdout=fout, stderr=subprocess.PIPE, text=True, timeout=3600)
    return p.returncode, p.stderr


def read_lines(p):
    with open(p, encoding="utf-8", errors="replace") as f:
        return [l.rstrip("\n") for l in f]


def compare_files(ops_path, impl_path, res_path, model_path, keys, spec_tags=None):
    """returns (n_cases, first_failure or None, per-case model outputs)"""
    ops, impl, res, model = map(read_lines, (ops_path, impl_path, res_path, model_path))
    failures = []
    n = min(len(impl), len(model))
    # locate case boundaries on the impl side (markers are echoed)
    case_idx, cur = [], -1
    for i in range(n):
        if impl[i].startswith("#case"):
            cur += 1
        case_idx.append(cur)
    tainted = {case_idx[i] for i in range(n) if impl[i].endswith(" tick") or impl[i] == "tick"}
    specviol = []
    for i in range(n):
        # the model's Spec oracle flags lines on which the MODEL itself deviates from the property's
        # letter (theorem only `_partial` there); if the implementation agrees with the model on such
        # a line, the implementation violates the property on this input
        if "~specviol=" in model[i] and case_idx[i] not in tainted and not line_diff(impl[i], model[i], keys):
            tag = parse_out(model[i]).get("~specviol", "?")
            if spec_tags is None or tag in spec_tags:  # a stream shared by several properties: each judges its own tags
                specviol.append((case_idx[i], i, ["#specviol:" + tag]))
    for i in range(n):
        if case_idx[i] in tainted:
            continue  # the wall-clock second ticked during a clock-reading op: case not judged
        if impl[i].startswith("#case"):
            if impl[i] != model[i]:
                failures.append((case_idx[i], i, ["#desync"]))
                break
            continue
        d = line_diff(impl[i], model[i], keys)
        if d:
            failures.append((case_idx[i], i, d))
            if len(failures) >= 50:
                break
    if not failures and len(impl) != len(model):
        failures.append((cur, n, ["#length %d vs %d" % (len(impl), len(model))]))
    failures += specviol
    return ops, impl, res, model, failures


def rerun_case(stream, header, op_lines, keys, tag, want=None):
    """run one case (list of op lines) on both sides; returns (differs?, impl_lines, model_lines, resolved)"""
    d = os.path.join(BUILD, "shrink")
    os.makedirs(d, exist_ok=True)
    p = os.path.join(d, f"{tag}.ops")
    with open(p, "w") as f:
        f.write(header + "\n")
        for l in op_lines:
            f.write(l + "\n")
    os.environ["VERIF_OP_TIMEOUT"] = "15"  # a wedged candidate is given up quickly while shrinking
    try:
        rc, txt, out, res = run_impl(stream, p, "s", timeout=600)
    finally:
        os.environ.pop("VERIF_OP_TIMEOUT", None)
    if rc != 0:
        # while shrinking towards a particular failure, a candidate that merely crashes the harness (e.g. an op
        # that lost the op which initialises its subject) is not the same failure
        same_failure = want is None or want == ["#crash"]
        return same_failure, ["#crash rc=%d %s" % (rc, txt[-300:].replace("\n", " | "))], [], []
    mp = p + ".model"
    run_model(res, mp)
    impl, model, resolved = read_lines(out), read_lines(mp), read_lines(res)
    differs = len(impl) != len(model) or any(
        (not a.startswith("#")) and line_diff(a, b, keys) for a, b in zip(impl, model))
    if want is not None and len(want) == 1 and want[0].startswith("#specviol:"):
        # a spec violation: the model flags the line as deviating from the property's letter and the
        # implementation agrees with the model on it
        tag = want[0][len("#specviol:"):]
        tainted = any(a.endswith(" tick") or a == "tick" for a in impl)
        hit = any(parse_out(b).get("~specviol") == tag and not line_diff(a, b, keys) for a, b in zip(impl, model))
        return (hit and not tainted), impl, model, resolved
    if want is not None and differs:
        # while shrinking, keep only candidates that fail the same way (same differing fields on some
        # line) and that both sides still accept as well-formed ops
        same = any((not a.startswith("#")) and set(want) <= set(line_diff(a, b, keys)) for a, b in zip(impl, model))
        malformed = any(l == "bad-op" or l.startswith("bad-op ") for l in impl + model)
        differs = same and not malformed
    return differs, impl, model, resolved


def ddmin(stream, header, op_lines, keys, tag, budget=200, want=None, wall=420):
    """delta-debugging over the op lines of one failing case (bounded in runs and in wall-clock time)"""
    cur = list(op_lines)
    n = 2
    runs = 0
    t0 = time.time()
    while len(cur) >= 2 and runs < budget and time.time() - t0 < wall:
        chunk = max(1, len(cur) // n)
        reduced = False
        for i in range(0, len(cur), chunk):
            cand = cur[:i] + cur[i + chunk:]
            if not cand:
                continue
            runs += 1
            if time.time() - t0 >= wall:
                break
            bad, *_ = rerun_case(stream, header, cand, keys, tag, want)
            if bad:
                cur = cand
                n = max(n - 1, 2)
                reduced = True
                break
        if not reduced:
            if chunk == 1:
                break
            n = min(len(cur), n * 2)
    return cur


# ------------------------------------------------------------------------------------------------

def load_known():
    p = os.path.join(ROOT, "known_findings.json")
    if not os.path.exists(p):
        return {"findings": [], "fixed": []}
    return json.load(open(p))


def write_replay(prop_id, name, payload):
    os.makedirs(REPLAYS, exist_ok=True)
    p = os.path.join(REPLAYS, f"{prop_id}-{name}.json")
    with open(p, "w") as f:
        json.dump(payload, f, indent=1)
    return p


def run_stream(prop_id, cfg, scfg, seed, tier, log, stats):
    """returns list of violations: dicts(kind, replay payload)"""
    stream = scfg["name"]
    keys = scfg.get("keys")
    trivial = re.compile(scfg.get("trivial", r"^$"))
    work = os.path.join(BUILD, "work", prop_id)
    os.makedirs(work, exist_ok=True)
    violations = []
    inputs = []
    # 1. corpus first
    cdir = os.path.join(CORPUS, stream)
    if os.path.isdir(cdir):
        for fn in sorted(os.listdir(cdir)):
            if fn.endswith(".ops"):
                # run a scratch copy so that the side files (.impl/.model/.resolved) stay out of corpus/
                cp = os.path.join(work, "corpus-" + stream + "-" + fn)
                shutil.copyfile(os.path.join(cdir, fn), cp)
                inputs.append(("corpus:" + fn, cp))
    # 2. generated
    scale = scfg.get("scale", {}).get(tier)
    nseeds = scfg.get("seeds", {}).get(tier, 1)
    for k in range(nseeds):
        s = seed * 1000003 + k
        ops = os.path.join(work, f"{stream}.{k}.ops")
        cmd = [HARNESS_BIN, "gen", stream, "-seed", str(s), "-tier", tier, "-out", ops]
        if scale:
            cmd += ["-scale", str(scale)]
        cmd += scfg.get("gen_args", [])
        rc, out = sh(cmd, env=goenv(), timeout=1200)
        if rc != 0:
            violations.append({"kind": "no-input", "why": f"generator for stream {stream} failed", "log": out[-2000:]})
            return violations
        inputs.append((f"gen:seed={s}", ops))
    st = stats.setdefault(stream, {"cases": 0, "ops": 0, "distinct": set(), "nontrivial": set(), "hist": {}, "samples": [], "sub_seeds": []})
    for label, ops_path in inputs:
        st["sub_seeds"].append(label)
        rc, txt, impl_path, res_path = run_impl(stream, ops_path, "r")
        crashed = rc != 0
        model_path = ops_path + ".r.model"
        mrc, merr = run_model(res_path, model_path)
        if mrc != 0:
            violations.append({"kind": "no-input", "why": f"Lean driver failed on stream {stream}: {merr[-500:]}"})
            continue
        ops, impl, res, model, failures = compare_files(ops_path, impl_path, res_path, model_path, keys, scfg.get("spec_tags"))
        # statistics from the MODEL's outputs
        cases = split_cases(model)
        op_cases = split_cases(ops)
        hist = st["hist"]
        for ci, (hdr, outs) in enumerate(cases):
            body = "\n".join(op_cases[ci][1]) if ci < len(op_cases) else hdr
            h = hashlib.sha1(body.encode()).hexdigest()
            st["cases"] += 1
            st["ops"] += len(outs)
            st["distinct"].add(h)
            if any(not trivial.search(o) for o in outs):
                st["nontrivial"].add(h)
            for o in outs:
                for hk in scfg.get("hist_keys", []):
                    v = parse_out(o).get(hk, parse_out(o).get("~" + hk))
                    if v is not None:
                        hist.setdefault(hk, {}).setdefault(v, 0)
                        hist[hk][v] += 1
                for tok in parse_out(o):
                    if tok.startswith("_"):
                        hist.setdefault("token", {}).setdefault(tok[1:], 0)
                        hist["token"][tok[1:]] += 1
            if len(st["samples"]) < 3 and ci < len(op_cases) and (ci % 97 == 5 or len(cases) < 6):
                st["samples"].append({"ops": op_cases[ci][1][:12], "model_out": outs[:12]})
        if crashed:
            # the crash (or the watchdog's exit on a wedged op) explains a short output: one report, not two
            failures = [f for f in failures if not f[2][0].startswith("#length")]
            failures.append((len(split_cases(impl)) - 1, len(impl), ["#crash"]))
        # one report per distinct failure signature (set of differing fields), first case of each
        seen_sig = set()
        op_cases = split_cases(ops)
        for ci, li, dkeys in failures:
            sig = ",".join(dkeys)
            # a disagreement on a line the spec oracle also flags is a different failure from one on a clean line
            if 0 <= li < len(model) and "~specviol=" in model[li]:
                sig += "@" + model[li].split("~specviol=")[1].split()[0]
            if sig in seen_sig or len(seen_sig) >= 4:
                continue
            seen_sig.add(sig)
            hdr, body = op_cases[ci] if 0 <= ci < len(op_cases) else ("#case -", [])
            tag = f"{prop_id}-{stream}"
            if dkeys == ["#crash"]:
                shrunk = body
                m = re.search(r"^(panic:|fatal error:|WARNING: DATA RACE).*(?:\n.*){0,24}", txt, flags=re.M)
                head = m.group(0) if m else txt[:800]
                bad, simpl, smodel, sres = True, ["#crash rc=%d: %s\n...\n%s" % (rc, head, txt[-600:])], [], []
            elif dkeys[0].startswith("#specviol:"):
                bad0, *_ = rerun_case(stream, hdr, body, keys, tag, want=dkeys)
                shrunk = ddmin(stream, hdr, body, keys, tag, want=dkeys) if bad0 and len(body) > 1 else body
                bad, simpl, smodel, sres = rerun_case(stream, hdr, shrunk, keys, tag, want=dkeys)
            else:
                bad0, *_ = rerun_case(stream, hdr, body, keys, tag)
                if not bad0 and scfg.get("retry_transient"):
                    # a stream that freezes the wall clock around real-time code: under heavy machine load a
                    # boundary can flip once.  A disagreement that does not recur when the same case is run
                    # alone, twice more, is recorded as transient (evidence) and not reported as a violation.
                    again = [rerun_case(stream, hdr, body, keys, tag)[0] for _ in range(2)]
                    if not any(again):
                        st.setdefault("transient", []).append({"source": label, "case": hdr, "differing_keys": dkeys})
                        continue
                shrunk = ddmin(stream, hdr, body, keys, tag, want=dkeys) if bad0 and len(body) > 1 else body
                bad, simpl, smodel, sres = rerun_case(stream, hdr, shrunk, keys, tag)
            violations.append({
                "kind": "failing-input", "stream": stream, "source": label, "case": hdr,
                "differing_keys": dkeys, "n_failing_lines": sum(1 for f in failures if ",".join(f[2]) == sig.split("@")[0]),
                "ops": shrunk, "resolved": sres, "impl_out": simpl, "model_out": smodel,
                "reproduced_after_shrink": bad,
                "original_ops": body if len(body) <= 400 else body[:400],
            })
    return violations


def match_known(prop_id, v, known):
    """a failing case matches a listed finding when every op line pattern of the finding occurs"""
    for f in known.get("findings", []):
        if f.get("property") != prop_id:
            continue
        m = f.get("match", {})
        if m.get("stream") and m["stream"] != v.get("stream"):
            continue
        if m.get("specviol"):
            if "#specviol:" + m["specviol"] in v.get("differing_keys", []):
                return f
            continue
        text = "\n".join(v.get("ops", []) + v.get("impl_out", []))
        if m.get("all_of") and all(re.search(p, text, flags=re.M) for p in m["all_of"]):
            return f
    return None


def main(argv):
    ap = argparse.ArgumentParser()
    ap.add_argument("prop", nargs="?")
    ap.add_argument("--tier", default=os.environ.get("VERIF_TIER", "quick"))
    ap.add_argument("--replay")
    ap.add_argument("--setup", action="store_true")
    ap.add_argument("--seed", type=int, default=int(os.environ.get("VERIF_SEED", "1") or 1))
    args = ap.parse_args(argv)
    os.makedirs(BUILD, exist_ok=True)
    if args.setup:
        return setup()
    if args.prop not in PROPS:
        print("unknown property", args.prop); return 2
    if args.replay:
        return replay(args.prop, args.replay)
    return check(args.prop, args.tier, args.seed)


def setup():
    log = []
    ok = True
    with Lock("build"):
        h_ok, _ = build_harness(log)
        ok &= h_ok
        e_ok, _ = run_extract(log) if h_ok else (False, {})
        ok &= e_ok
        mods = sorted({m for c in PROPS.values() if c.get("ready", True) for m in c["lean_modules"]})
        l_ok, out = lake_build(mods + ["bvdriver"], log)
        ok &= l_ok
    for name, rc, out in log:
        print(f"--- {name}: rc={rc}")
        if rc != 0:
            print(out)
    print("setup", "ok" if ok else "FAILED")
    return 0 if ok else 1


def check(prop_id, tier, seed):
    t0 = time.time()
    cfg = PROPS[prop_id]
    log, violations = [], []
    known = load_known()
    stats = {}
    targets = cfg["lean_modules"] + ["bvdriver"]
    with Lock("build"):
        h_ok, h_out = build_harness(log)
        # facts come from the harness binary; if it no longer builds the committed Generated files stay
        # in place and the broken build is itself reported below
        e_ok, gen_digests = run_extract(log) if h_ok else (True, {})
        lean_ok, lean_out = lake_build(targets, log, clean=False)
        if tier == "thorough" and lean_ok and cfg.get("leanchecker", True):
            for m in cfg["lean_modules"]:
                rc, out = sh(["lake", "env", "leanchecker", m], cwd=LEAN, timeout=3600)
                log.append(("leanchecker " + m, rc, out[-3000:]))
                if rc != 0:
                    lean_ok = False
                    lean_out += "\nleanchecker failed: " + out[-2000:]
        if lean_ok:
            n_obl, n_dis, n_ex, ax_details, ax_bad, arc = axioms_audit(prop_id, cfg, log)
        else:
            n_obl, n_dis, n_ex, ax_details, ax_bad = 0, 0, 0, {}, {}
            for f in cfg["props_files"]:
                try:
                    n_obl += len(theorem_names(f)[0])
                except OSError:
                    pass
        grep_hits = grep_audit()
    broken = []
    if not e_ok:
        broken.append("extractor failed on /repo's working tree (tie F1..F10 broken): " + log[-1][2][-1500:] if log else "")
    if not lean_ok:
        errs = "\n".join(l for l in lean_out.split("\n") if "error" in l.lower())[:3000]
        broken.append("Lean proof obligations no longer check: " + errs)
    if ax_bad:
        broken.append("theorems with inadmissible or unreported axioms: " + json.dumps(ax_bad))
    if grep_hits:
        broken.append("forbidden constructs in Lean sources: " + "; ".join(grep_hits[:10]))
    if not h_ok:
        broken.append("harness no longer builds against /repo (hooked function changed?): " + h_out[-1500:])
    if h_ok and os.path.exists(DRIVER_BIN):
        USE_RACE["on"] = False
        if tier == "thorough" and cfg.get("race"):
            with Lock("build"):
                USE_RACE["on"] = build_race_harness(log)
            if not USE_RACE["on"]:
                broken.append("the harness does not build with -race")
        for scfg in cfg["streams"]:
            violations += run_stream(prop_id, cfg, scfg, seed, tier, log, stats)
        USE_RACE["on"] = False
    if broken and cfg.get("search_on_broken") and h_ok and os.path.exists(DRIVER_BIN) \
            and not any(v["kind"] == "failing-input" for v in violations):
        # an obligation broke and the ordinary run found no failing input: search harder (thorough volume, and the
        # race detector where the property is about concurrency) before reporting no-failing-input-found
        if cfg.get("race"):
            with Lock("build"):
                USE_RACE["on"] = build_race_harness(log)
        for scfg in cfg["streams"]:
            violations += run_stream(prop_id, cfg, scfg, seed + 7919, "thorough", log, stats)
        USE_RACE["on"] = False
    failing = [v for v in violations if v["kind"] == "failing-input"]
    other = [v for v in violations if v["kind"] != "failing-input"]
    for v in other:
        broken.append(v["why"])
    exit_code = 0
    printed = []
    n_viol = 0
    listed_seen = set()
    for v in failing:
        kf = match_known(prop_id, v, known)
        if kf is not None:
            if kf["id"] not in listed_seen:
                listed_seen.add(kf["id"])
                printed.append(f"KNOWN-FINDING: property={prop_id} {kf['id']}: {kf['what']}")
            continue
        n_viol += 1
        name = f"{v['stream']}-{tier}-{seed}-{n_viol}"
        payload = dict(v, property=prop_id, seed=seed, tier=tier, broken_obligations=broken,
                       note="ops are replayable with: ./check %s --replay <this file>" % prop_id)
        p = write_replay(prop_id, name, payload)
        printed.append(f"VIOLATION property={prop_id} replay={p}")
        exit_code = 1
    if broken and not exit_code:
        # an obligation or the tie is broken and no failing input was found by the differential run
        n_viol += 1
        payload = {"property": prop_id, "kind": "broken-obligation", "seed": seed, "tier": tier,
                   "no_longer_checks": broken,
                   "lean_log": [l for l in log if l[0].startswith("lake-build") or l[0].startswith("axioms")][-2:],
                   "searched": {s: {"cases": st["cases"], "ops": st["ops"]} for s, st in stats.items()}}
        p = write_replay(prop_id, f"obligation-{tier}-{seed}", payload)
        printed.append(f"VIOLATION property={prop_id} replay={p} no-failing-input-found")
        exit_code = 1
    # known findings that are listed as theorem-level (always reported while listed and still present)
    for kf in known.get("findings", []):
        if kf.get("property") == prop_id and kf.get("always_report") and kf["id"] not in listed_seen:
            printed.append(f"KNOWN-FINDING: property={prop_id} {kf['id']}: {kf['what']}")
    wall = time.time() - t0
    write_evidence(prop_id, cfg, tier, seed, stats, n_obl, n_dis, n_ex, ax_details, gen_digests, n_viol, wall, targets, broken)
    for l in printed:
        print(l)
    tot_cases = sum(st["cases"] for st in stats.values())
    print(f"[{prop_id}] tier={tier} seed={seed} theorems={n_dis}/{n_obl} cases={tot_cases} violations={n_viol} wall={wall:.1f}s")
    if exit_code:
        for name, rc, out in log:
            if rc != 0:
                print(f"--- {name}: rc={rc}\n{out[-2500:]}")
    return exit_code


def write_evidence(prop_id, cfg, tier, seed, stats, n_obl, n_dis, n_ex, ax_details, gen_digests, n_viol, wall, targets, broken):
    os.makedirs(EVIDENCE, exist_ok=True)
    evaluations = sum(st["cases"] for st in stats.values())
    distinct_nontrivial = sum(len(st["nontrivial"]) for st in stats.values())
    samples = []
    for s, st in stats.items():
        for x in st["samples"]:
            samples.append(dict(x, stream=s))
    for name, ax in list(ax_details.items())[:4]:
        samples.append({"obligation": name, "axioms": ax})
    anchors = {f: sha(os.path.join(REPO, f)) for f in cfg.get("anchors", [])}
    ev = {
        "property_id": prop_id, "tier": tier, "seed": seed, "level": "proof",
        "coverage": {
            "obligations": max(n_obl, 1), "discharged": n_dis,
            "checker_cmd": "cd /verif/lean && lake build " + " ".join(targets)
                           + " && lake env lean <generated '#print axioms' file>"
                           + (" && lake env leanchecker " + " ".join(cfg["lean_modules"]) if tier == "thorough" else ""),
            "trusted_base": GLOBAL_TRUSTED + cfg.get("trusted", []),
            "theorems": {k: v for k, v in ax_details.items()},
            "nonvacuity_examples": n_ex,
            "evaluations": max(evaluations, 0),
            "distinct_nontrivial": distinct_nontrivial,
            "rule": cfg.get("rule", "") + " | evaluations = op sequences (cases) executed on both the real code and the Lean model; "
                    "distinct_nontrivial = distinct case bodies (sha1 of op lines) for which the model produced at least one output line not matching the stream's trivial pattern",
            "streams": {s: {"cases": st["cases"], "ops": st["ops"], "distinct": len(st["distinct"]),
                            "distinct_nontrivial": len(st["nontrivial"]), "histogram": st["hist"],
                            "inputs": st["sub_seeds"],
                            "transient_disagreements_not_reproduced": st.get("transient", [])} for s, st in stats.items()},
            "samples": samples if samples else [{"note": "no correspondence stream ran"}],
            "generated_facts": gen_digests,
            "anchor_digests": anchors,
            "broken": broken,
        },
        "assumptions": cfg.get("assumptions", []),
        "wall_s": round(wall, 2),
        "violations": n_viol,
    }
    with open(os.path.join(EVIDENCE, prop_id + ".json"), "w") as f:
        json.dump(ev, f, indent=1, sort_keys=True)


def replay(prop_id, path):
    cfg = PROPS[prop_id]
    r = json.load(open(path))
    log = []
    with Lock("build"):
        h_ok, h_out = build_harness(log)
        if h_ok:
            run_extract(log)
        lake_build(cfg["lean_modules"] + ["bvdriver"], log)
    if r.get("kind") != "failing-input":
        ok = all(rc == 0 for _, rc, _ in log)
        print(json.dumps(r.get("no_longer_checks"), indent=1))
        print("obligations now", "check" if ok else "still broken")
        return 0 if ok else 1
    scfg = next(s for s in cfg["streams"] if s["name"] == r["stream"])
    dk = r.get("differing_keys", [])
    want = dk if len(dk) == 1 and dk[0].startswith("#specviol:") else None
    bad, impl, model, resolved = rerun_case(r["stream"], r.get("case", "#case 0"), r["ops"], scfg.get("keys"), prop_id + "-replay", want=want)
    for a, b, c in zip(resolved, impl, model + [""] * len(impl)):
        mark = "  " if a.startswith("#") or not line_diff(b, c, scfg.get("keys")) else "!!"
        print(f"{mark} op:    {a}\n{mark} impl:  {b}\n{mark} model: {c}")
    if bad:
        print(f"VIOLATION property={prop_id} replay={path}")
        return 1
    print("replay no longer fails")
    return 0
