#!/usr/bin/env python3
"""Regenerates /verif/MANIFEST.json from checklib/props.py + checklib/manifest_text.py."""
import json, os, subprocess, sys
sys.path.insert(0, os.path.dirname(os.path.abspath(__file__)))
from props import PROPS
from manifest_text import TEXT, NOT_APPLICABLE, NOTES

ROOT = os.path.dirname(os.path.dirname(os.path.abspath(__file__)))
ids = [json.loads(l)["id"] for l in open(os.path.join(ROOT, "properties.jsonl"))]

def hook_commits():
    try:
        out = subprocess.run(["git", "-C", "/repo", "log", "--format=%H %s"], stdout=subprocess.PIPE, text=True).stdout
        return [l.split(" ", 1)[0] for l in out.splitlines() if l.split(" ", 1)[1].startswith("verif hooks")]
    except Exception:
        return []

checks = []
for pid in ids:
    if pid not in PROPS or pid not in TEXT or not PROPS[pid].get('ready', True):
        continue
    t = TEXT[pid]
    checks.append({
        "property_id": pid,
        "quick_cmd": f"./check {pid} --tier quick",
        "thorough_cmd": f"./check {pid} --tier thorough",
        "evidence_file": f"/verif/evidence/{pid}.json",
        "replay_cmd_template": f"./check {pid} --replay {{path}}",
        "engine": "lean4-proof+correspondence",
        "level_claimed": {"category": "proof", "text": t["text"], "design_ref": t["design_ref"]},
        "level_note": t["note"],
        "technique": t["technique"],
    })
na = [{"property_id": pid, "reason": NOT_APPLICABLE.get(pid, "check not built yet in this session (work in progress; see DESIGN.md §9)")}
      for pid in ids if pid not in {c["property_id"] for c in checks}]
m = {
    "version": 1,
    "setup_cmd": "./check --setup",
    "hooks": {
        "guard": "verif",
        "enable": "go build -tags verif (the harness module /verif/harness replaces github.com/linkedin/Burrow => /repo and imports github.com/linkedin/Burrow/core/verifhook)",
        "baseline_off_cmd": "cd /repo && GOFLAGS=-mod=mod go test -json -vet=off -count=1 -timeout 25m ./...",
        "source_commits": hook_commits(),
        "add_only": True,
    },
    "engines": [{
        "name": "lean4-proof+correspondence", "path": "/verif/lean + /verif/harness (incl. the fact generators, `harness facts`) + /verif/checklib",
        "serves_properties": [c["property_id"] for c in checks],
        "kind_free_text": "Lean 4 theorems over an executable model (kernel-checked, axioms audited) + facts regenerated from the Go source + differential correspondence check between the compiled Lean model and the real Go code run in-process",
    }],
    "checks": checks,
    "not_applicable": na,
    "notes": NOTES,
}
json.dump(m, open(os.path.join(ROOT, "MANIFEST.json"), "w"), indent=1)
print("checks:", [c["property_id"] for c in checks], "not claimed:", [x["property_id"] for x in na])
