"""Per-property MANIFEST texts (level claimed, trusted base, technique)."""

NOTES = ("All checks: ./check <id> --tier quick|thorough. Each run regenerates facts from /repo, rebuilds the Lean "
         "theorems of the property and audits their axioms, rebuilds the Go harness against /repo's working tree with "
         "-tags verif, and runs the differential correspondence streams (corpus first). See DESIGN.md.")

NOT_APPLICABLE = {}

TEXT = {}

TEXT["C03"] = {
    "design_ref": "DESIGN.md §4.3",
    "technique": "Lean 4 theorem (model = declarative rule spec, for all windows/clocks) + differential correspondence of the model against calculatePartitionStatus/evaluatePartitionStatus",
    "text": ("Proof: Props/C03.lean proves for every non-empty window, broker history, current/allowed lag and clock value that the model of "
             "calculatePartitionStatus returns exactly the status of the documented procedure stated with quantifiers (calculate_eq_spec), never panics, "
             "is invariant under shifting all offsets or all times, returns OK within the allowed lag and below the completeness minimum, and that "
             "evaluatePartitionStatus applies the procedure to the non-nil suffix of the window (partition_status_is_spec). The model is tied to the Go code "
             "by a differential run of the real functions (hooked, in-process) against the compiled model on thousands of generated windows placed on every "
             "comparison boundary; any status disagreement is a concrete failing input because the spec determines the status uniquely."),
    "note": ("Trusted: Lean kernel + 3 standard axioms; the harness and its generator; float32 completeness comparison is an abstract predicate in the proof "
             "and an exact emulation in the driver; int64 overflow of now*1000 not modelled. The tie is sampled, not exhaustive."),
}
