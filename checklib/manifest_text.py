"""Per-property MANIFEST texts (level claimed, trusted base, technique)."""

NOTES = ("All checks: ./check <id> --tier quick|thorough (replay: ./check <id> --replay <file>). Each run regenerates facts from /repo, rebuilds the Lean "
         "theorems of the property and audits their axioms, rebuilds the Go harness against /repo's working tree with "
         "-tags verif, and runs the differential correspondence streams (corpus first). "
         "Trusted base: Lean 4.33 kernel (re-checked with leanchecker in the thorough tier); every property theorem depends on at most "
         "propext, Classical.choice, Quot.sound (audited with #print axioms on every run; no sorry, admit, native_decide, bv_decide, "
         "implemented_by, unsafe or added axioms — grepped on every run); the hand-written models under lean/BurrowVerif/Model "
         "(what is modelled rather than verified is listed per property in level_note and in DESIGN.md section 4 and 10); the fact "
         "generators and the harness (Go), the orchestrator (Python) and the canonicalisation of outputs; the ties are sampled "
         "(differential runs) except for the regenerated facts, which are exact for what they extract. A broken obligation or a "
         "disagreement is reported as a VIOLATION with a concrete replay when one is found and with no-failing-input-found otherwise; "
         "listed known findings (known_findings.json) are reported as KNOWN-FINDING lines. See DESIGN.md.")

NOT_APPLICABLE = {}

TEXT = {}

TEXT["C03"] = {
    "design_ref": "DESIGN.md §4.3",
    "technique": "Lean 4 theorem (model = declarative rule spec, for all windows/clocks) + differential correspondence of the model against calculatePartitionStatus/evaluatePartitionStatus",
    "text": ("Proof: Props/C03.lean proves for every non-empty window, broker history, current/allowed lag and clock value that the model of "
             "calculatePartitionStatus returns exactly the status of the documented procedure stated with quantifiers (calculate_eq_spec), never panics, "
             "is invariant under shifting all offsets or all times, returns OK within the allowed lag and below the completeness minimum, and that "
             "evaluatePartitionStatus applies the procedure to the non-nil suffix of the window (partition_status_is_spec). The model is tied to the Go code "
             "by a differential run of the real functions (hooked, in-process) against the compiled model on thousands of generated windows placed on every "
             "comparison boundary; any status disagreement is a concrete failing input because the spec determines the status uniquely."),
    "note": ("Trusted: Lean kernel + 3 standard axioms; the harness and its generator; float32 completeness comparison is an abstract predicate in the proof "
             "and an exact emulation in the driver; int64 overflow of now*1000 not modelled. The tie is sampled, not exhaustive."),
}

TEXT["C01"] = {
    "design_ref": "DESIGN.md §4.1",
    "technique": "Lean 4 theorems over the storage model (refinement of the ring code to a list-level step + exact-lag lemmas) + differential correspondence on storage histories",
    "text": ("Proof: Props/C01.lean proves, for every storage state, that the fetch-time lag pass reports max(0, broker - commit) of the newest broker value and the newest commit, "
             "never the wrapped value (currentLag_exact, lagAt_exact, wrap_witness), zero for partitions without commits (no_commit_zero); and for every ring size, minimum distance and arrival "
             "history that a stored commit carries a lag exactly when it arrived as the newest in the log, computed against the broker offset known at that arrival, and none when it arrived "
             "out of order (commitLag_at_arrival, storedLag_has_origin, via the refinement theorem of C02). Tie: differential run of the real handlers vs the compiled model on generated histories; "
             "the lag fields are functions of the history, so any disagreement is a concrete failing input."),
    "note": ("Trusted: Lean kernel + 3 standard axioms; harness/generator; offsets assumed in [0,2^63) for exactness (wrap reproduced in the model outside); the tie is sampled. "
             "Not modelled: ObservedTimestamp, broker timestamps, logging."),
}
TEXT["C02"] = {
    "design_ref": "DESIGN.md §4.2",
    "technique": "Lean 4 refinement proof: pointer-level ring model of the Go code = abstract sorted-window step, for all ring sizes and arrival sequences; + differential correspondence",
    "text": ("Proof: Props/C02.lean proves for every ring size N>=1, every minimum distance and every finite arrival sequence that the pointer-level model of findConsumerOffsetDestination / "
             "mergeFrequentCommitIntoPrevious / storeConsumerOffset never runs out of fuel, refines a list-level step (refines_abstract_step), keeps the window shape 'blanks first, then strictly "
             "increasing log positions' (window_inv, step_preserves), holds the newest commit last (newest_is_max), is exactly the top-N of the commits seen and independent of arrival order and "
             "duplication when min-distance is 0 and timestamps are monotone (window_is_topN, arrival_order_irrelevant), and characterises drop / merge / own-slot per arrival (dropped_step, merge_step, "
             "own_slot_step). Tie: differential run of the real storage handlers vs the compiled model with dense position collisions; the window is a function of the history. The conc stream (the module's REAL main loop and worker pool, log positions from 0) is judged here too, so what the dispatcher does to a commit before a worker sees it is compared; a directed history covers commit / per-topic group delete / commit again for one topic."),
    "note": ("Trusted: Lean kernel + 3 standard axioms; harness; container/ring modelled as a circular array. One stated reading: a non-newest commit whose predecessor is the oldest entry of a full "
             "window replaces it outright (MergePred). The tie is sampled."),
}
TEXT["C06"] = {
    "design_ref": "DESIGN.md §4.6",
    "technique": "Lean 4 theorems over a byte-level decoder model with explicit panic and allocation outcomes (for all byte strings) + differential correspondence incl. per-message allocation measurement",
    "text": ("Proof: Props/C06.lean proves for every key/value byte string that the model of processConsumerOffsetsMessage never panics (process_never_panics), requests at most "
             "100*(|key|+|value|)+64KiB through make/conversions (process_alloc_bounded), and produces an offset update only from a fully present, sanely-lengthed commit (malformed_commit_skipped). "
             "Tie: the real decoder (hooked, in-process, child process with address-space cap) vs the compiled model on structured messages with every truncation and every length/count field set to "
             "extreme values, comparing emitted requests, panics and a TotalAlloc verdict. Three genuine defects found this way were repaired in /repo (fix: commits, known_findings.json). Since the forwarded requests are executed by storage workers that recover from nothing, the storage stream is judged here on crashes (owner updates and commits for partitions the topic does not have, negative or huge)."),
    "note": ("Trusted: Lean kernel + 3 standard axioms; harness; allocation = requested sizes in the theorem, observed TotalAlloc on the implementation (+16 KiB slack); bytes.Buffer/encoding/binary "
             "semantics as modelled. The tie is sampled."),
}
TEXT["C07"] = {
    "design_ref": "DESIGN.md §4.7",
    "technique": "Lean 4 round-trip theorems (decode . encode) over all field values and versions + differential correspondence with an independent Go encoder + the real consumer start-up and partition consumer loops run against a scripted offsets topic",
    "text": ("Proof: Props/C07.lean proves decode-after-encode round trips for every well-formed offset commit (key v0/v1, value v0/v1/v3, any strings incl. empty/null, any integers, trailing bytes) "
             "and every well-formed group-metadata message (value v0-v3, any members/topics/partitions): exactly one offset update ordered by the message's own log position; one owner update per assigned "
             "topic-partition with the member's host and client id; empty member list clears; tombstone deletes; other protocol types and offset tombstones yield nothing. Tie: real decoder vs compiled "
             "model on messages produced by an independent Go encoder; the repo's literal test fixtures are proved to be encodings in the sense of the spec. The path from the offsets topic to the decoder is modelled too (Model/Consume.lean: startKafkaConsumer, startBackfillPartitionConsumer, partitionConsumer): every_message_reaches_the_decoder (a live consumer forwards, for any message sequence with nil messages and consume errors in between, exactly what each message yields, and never ends), backfill_handles_the_end_offset_then_stops (up to AND INCLUDING the first message at or beyond the end offset), backfill_runs_until_the_end_offset, backfill_end_is_last_published, start_covers_every_partition. Tie: stream consume — the module's REAL startKafkaConsumer and every partitionConsumer goroutine on a scripted offsets topic with injected faults, messages fed around each backfill's end offset, real Stop."),
    "note": ("Trusted: Lean kernel + 3 standard axioms; the hand transcription of the Kafka formats (Spec/Wire.lean); harness; owner updates compared as a sorted multiset per message. The tie is sampled. Which goroutine runs when is the runtime's; the progress commit's wall-clock timestamp is not compared."),
}

TEXT["C04"] = {
    "design_ref": "DESIGN.md §4.4",
    "technique": "Lean 4 theorems over the aggregation fold (for all partition lists and all orderings) + differential correspondence of real storage + real evaluator against the model",
    "text": ("Proof: Props/C04.lean proves for every list of partition results and every ordering of it (Go map order): the group status is OK iff all partitions are OK, WARN iff the worst is WARN, "
             "ERR iff any is stopped/stalled/rewound (status_*_iff); total lag is the uint64 sum (totalLag_sum/_exact); max-lag is a listed partition with maximal lag, absent iff no partitions; "
             "count = number of partitions; completeness = (#partitions whose window is full)/count with 'full' tied to the C02 window shape (complete_fraction, partition_complete_iff_full); the "
             "problems-only view is the filter of the full view with equal summary fields (filter_view); the evaluation never panics on C02-shaped windows (evaluateGroup_total). Tie: real storage + "
             "real CachingEvaluator vs the compiled model on generated histories, every sixth of them a directed one (one group, several topics, each partition driven into a chosen state, status asked three times because Go walks the topics in map order). A genuine defect (all-nil window counted as complete) was found this way and repaired (known_findings.json). The http stream (whole status and lag payloads, also after a /metrics scrape inside the cache lifetime) is judged here too, and every status request of the streams now travels through the evaluator module's REAL Start + mainLoop, two requests for one group in flight asking for different views included (S cqdup, S cburst view=)."),
    "note": ("Trusted: Lean kernel + 3 standard axioms; harness; float32 carried as exact pairs; max-lag ties compared by value. The tie is sampled."),
}
TEXT["C13"] = {
    "design_ref": "DESIGN.md §4.13",
    "technique": "Lean 4 invariant proofs over all evaluation histories and module configurations of a model of the incident bookkeeping + differential correspondence with recording modules",
    "text": ("Proof: Props/C13.lean proves for every evaluation history of a group and every module configuration: from the first evaluation worse than OK up to and including the first OK again every "
             "notification carries the same non-empty id and start (incident_identity); different incidents have different ids given non-repeating UUIDs (incidents_distinct); at the closing evaluation "
             "each accepting send-close module gets exactly one notification, a close (exactly_one_close); a close is only ever sent after an open incident (no_close_without_incident); several "
             "groups and clusters interleaved behave per group like that group's own history (run_projection). Tie: real checkAndSendResponseToModules/notifyModule vs the compiled model. The periodic refresh of the group records (real processClusterList/processConsumerList against a scripted storage, incl. a storage too busy to take the consumer-list requests before their one-second timeout) is part of the stream; refresh is modelled (Notifier.refresh) and stalled_refresh_keeps_every_record / stalled_refresh_keeps_incident prove that a refresh whose requests are given up changes no record of a listed cluster. The refresh is characterised from both sides (refresh_keeps_incident, refresh_picks_up_new_groups, refresh_drops_groups_that_left, refresh_drops_clusters_that_left) and run_projection_through_refreshes extends run_projection to histories in which refreshes come anywhere between the evaluation results of any groups: for a group that stays listed, every single-group theorem of C13/C14 holds across them. Every result of the notifier stream is delivered on the reply channel a REAL responseLoop reads; the zkloop stream (REAL manageEvalLoop under scripted lock losses) is judged here on inc=: a group's incident keeps its id and start across lock loss and re-acquisition."),
    "note": ("Trusted: Lean kernel + standard axioms; harness incl. its clock-freezing/time-shifting hook; UUID freshness assumed. Not modelled: concurrent responses for one group (the real code serialises them per cluster lock)."),
}
TEXT["C14"] = {
    "design_ref": "DESIGN.md §4.14",
    "technique": "Lean 4 invariant proofs over all evaluation histories and all threshold/interval/send-once/send-close combinations + differential correspondence",
    "text": ("Proof: Props/C14.lean proves: an open notification goes only to an accepting module at or above its threshold; within an incident two open notifications to a module are more than its send "
             "interval apart; with send-once at most one per incident; and every incident is announced — at the first evaluation of an incident whose status reaches an accepting module's threshold that "
             "module is notified, for the first and every later incident (every_incident_announced). The last theorem was false of the unchanged code (LastNotify survived incidents): the check found "
             "it, the defect was repaired in /repo (fix: commit), the model is of the repaired code. reminder_when_interval_elapsed: the interval limits but does not swallow — a module that is not send-once is notified again by the first evaluation of the incident that comes more than its interval after its last notification. The configuration phase is part of the model and of the stream: N conf ops run the REAL Configure of the notifier coordinator on notifier sections with every setting independently present or absent and compare what notifyModule will read per module and the evaluation pace with ModSpec.cfg / minIntervalOf (defaults_are_the_documented_ones, pace_is_the_shortest_interval). Between the evaluator and the incident logic lies responseLoop: its control skeleton is regenerated from the source and pinned (every_result_reaches_the_incident_logic: a reply is skipped only when nil or NOTFOUND, every other one is handed over once). Tie: real notifier code vs the compiled model over all option combinations. loop_hands_on_every_evaluation (the response loop hands on exactly the answers that are evaluations: nil and NOTFOUND dropped, nothing else), tied by delivering every result through a REAL responseLoop; the zkloop stream is judged here on inc= (an incident announced before the lock was lost is not announced afresh)."),
    "note": ("Trusted: Lean kernel + standard axioms; harness incl. time shifting (interval boundaries approached to 8 ms, never compared exactly). Reading: send-interval applies within an incident."),
}

TEXT["C05"] = {
    "design_ref": "DESIGN.md §4.5",
    "technique": "Lean 4 theorems over a model of getConsumerStatus + goswarm (key round trip/injectivity, freshness invariant over all request histories) + differential correspondence; partial on scheduling",
    "text": ("Proof (partial on the concurrent clause): Props/C05.lean proves that the cache key splits back into exactly the cluster and group it was built from for all names incl. spaces "
             "(parse_mkKey, key_injective: no cross-talk), every request gets one reply naming its own cluster and group, for every time-ordered request history and every storage evolution "
             "a reply equals the evaluation of storage for the request's own group at an instant within the cache lifetime, for EVERY lifetime >= 0 (freshness; NOTFOUND iff no live data then; lifetime 0 = no caching, zero_lifetime_is_no_caching — full strength "
             "since the repair of D16: a zero lifetime reached goswarm as 'never expires'), "
             "and serving a filtered view leaves the cache as a full-view request would (filtered_view_pure). The key-collision defect D5 and D16 were found by the check and repaired in /repo; the "
             "stream also meets a storage subsystem that is slow to accept the evaluator's fetch, clusters differing only in case, and a directed staleness scenario (full view, problems-only view, "
             "change, problems-only view again just after one lifetime), and two requests for one group in flight together while its entry has expired and storage has changed (cqdup: both answers must be the status now). Glue: bursts of 3-40 concurrent requests go through the REAL evaluator coordinator (real Configure and Start: its request forwarder and the module's main loop) — one reply each, rightly named, none extra (cburst); the forwarder's control skeleton is regenerated from the source and pinned (evaluator_forwarder_hands_over_each_request_once); the /status and /lag routes of the HTTP API are judged too (stream http: the evaluated group is the one named in the URL, also for names with + and %XX). Tie: real CachingEvaluator + goswarm on real storage vs the compiled model. storage_forwarder_never_answers_for_storage: the storage coordinator's forwarder, regenerated, blocks until the module takes the request and never closes a reply channel."),
    "note": ("Trusted: Lean kernel + standard axioms; harness incl. cache-ageing hook; goswarm modelled from source. Not modelled: goroutine-per-request scheduling and liveness (observed only), "
             "evaluation time. The tie is sampled."),
}
TEXT["C11"] = {
    "design_ref": "DESIGN.md §4.11",
    "technique": "Lean 4 theorems over a model of one refresh cycle parameterised by all of Kafka's answers and faults + differential correspondence against a scripted fake Kafka + the real main loop on caller-owned tickers + regenerated facts of the sarama shim",
    "text": ("Proof: Props/C11.lean proves for every state, every cluster layout and every pattern of faults in a cycle: a partition is in broker b's request iff it is a led partition of the "
             "snapshot whose leader lookup answers b now, exactly once over all brokers (asked_iff, asked_once); every successful answer yields exactly one update with the answered offset and the "
             "partition count of the last complete refresh, leaderless partitions included (success_yields_one_update, count_is_partition_count); every update stems from an answer of this very "
             "cycle (no_fabrication); a failed call or a per-partition error yields no update for the affected partitions; an error code or unknown leader forces a metadata re-read next cycle. "
             "Tie: real getOffsets vs the compiled model on generated layouts and fault patterns over consecutive cycles. The module's mainLoop is modelled (Tick, loopStep, runLoop): every_offset_tick_runs_one_cycle (over ANY sequence of offset, metadata and reaper ticks the cycles performed are runCycles over the offset ticks, each flagged with 'a metadata tick arrived since the previous one' — so every per-cycle theorem holds of every cycle of every run), cycles_counted; tied by running the REAL mainLoop on ticker channels the harness owns (K tick ops, real Stop). shim_is_transparent: the sarama shim between the module and sarama.Client, REGENERATED from helpers/sarama.go (F12), hands every call and answer through unchanged and keeps no state (decide over the facts)."),
    "note": ("Trusted: Lean kernel + standard axioms; harness and the fake Kafka in core/verifhook (reads sarama.OffsetRequest blocks by reflection); faithful-broker assumption where stated. "
             "Not modelled: goroutine parallelism per broker, send time-outs. The shim is tied by regenerated facts only (no real sarama.Client runs): a change to it is reported with no-failing-input-found."),
}
TEXT["C12"] = {
    "design_ref": "DESIGN.md §4.12",
    "technique": "Lean 4 theorems over sequences of refresh cycles (all metadata histories and failure positions) + differential correspondence against a scripted fake Kafka + the real main loop on caller-owned tickers + regenerated facts of the sarama shim",
    "text": ("Proof: Props/C12.lean proves: a topic is reported deleted in a cycle iff that cycle's refresh completes, the topic was in the snapshot of the previous complete refresh and is absent "
             "now (delete_iff), at most once per cycle; a complete refresh replaces the snapshot by the listed topics, a refresh failing at the topic list or any partition list (or no refresh) "
             "keeps it and deletes nothing; listed topics are never deleted whatever their leaders; and over any sequence of cycles, between two reports of the same topic there is a complete "
             "refresh in which it was present again (exactly_once). Tie: real getOffsets/maybeUpdateMetadataAndDeleteTopics vs the compiled model with topics appearing, disappearing, re-appearing and failures at every position. metadata_tick_forces_refresh: a metadata tick of the main loop makes the NEXT offset tick re-read the metadata, whatever came before and however many reaper ticks lie in between (tied by the K tick ops on the REAL mainLoop); shim_is_transparent as in C11 (the topic and partition listings the deletion logic compares are sarama's own)."),
    "note": ("Trusted: Lean kernel + standard axioms; harness and fake Kafka. The tie is sampled. The sarama shim is tied by regenerated facts only."),
}

TEXT["C09"] = {
    "design_ref": "DESIGN.md §4.9",
    "technique": "Lean 4 theorems over the storage model: removal + frame conditions as equalities of every fetch view, for every state + differential correspondence on histories with deletions and expiry",
    "text": ("Proof: Props/C09.lean proves for every storage state satisfying the one-value-per-key invariant (proved to hold initially and after every request): after delete-group, "
             "delete-group-topic and delete-topic the deleted item is in no list, detail or topic view, while every other cluster, group, topic and partition is reported exactly as before "
             "(removes/frame theorems as equalities of all fetch views at every clock value); deleting what does not exist is the identity; a group whose newest commit is older than the expiry "
             "time is NOTFOUND and then gone from the listing, with the exact boundary; unexpired reads are pure; commits older than the expiry time are ignored. Tie: real storage handlers vs the "
             "compiled model with all fetches issued after every deletion. Under the worker pool: group_deletion_is_routed_with_the_groups_commits (`decide` over the routing switch of mainLoop REGENERATED from inmemory.go) and deletion_follows_earlier_commits (a deletion arriving after a commit of its group is queued on the same worker behind it, for any number of workers), tied by the conc stream on the real worker pool. The groups reaper of the cluster module, a third source of group deletions, is modelled (Cluster.reap): reaper_deletes_iff (exactly the groups storage lists and Kafka does not, the cluster's own burrow-<name> excepted, and only when both listings were obtained), reaper_failed_listing_deletes_nothing, reaper_spares_live_groups, reaper_names_each_group_once; tied by the cluster stream's reaper ticks through the REAL mainLoop. End to end (Model/Reaper.lean: the reaper's requests executed by the storage model): reaper_run_leaves_the_live_groups (after a sweep the cluster lists exactly the groups it listed before that Kafka still knows, plus burrow-<name>), reaper_sweep_frame (every group not named and every other cluster reported exactly as before), reaper_run_with_failed_listing_is_identity; tied by the S reap op: the REAL reapNonExistingGroups of a cluster module against the REAL storage module over the storage channel. The expired-group purge is also exercised while a concurrent reader holds the group map's read lock (S consumerbusy), and the expiry / window settings the real Configure ends up with are compared (S sconf)."),
    "note": ("Trusted: Lean kernel + standard axioms; harness; clock by sample-and-discard plus time shifting for expiry. Status staleness through the cache is C05's subject."),
}
TEXT["C10"] = {
    "design_ref": "DESIGN.md §4.10",
    "technique": "Lean 4 theorems per ingestion path (storage history invariant, decoder for all bytes, notifier for all histories) + three differential correspondence streams with allow/deny pairs",
    "text": ("Proof: Props/C10.lean proves: accept = (allowlist unset or matches) AND (denylist unset or does not match) (accept_iff); a rejected group's commit, ownership update and owner clear "
             "leave storage untouched, and after any history every group in any listing was created by an accepted commit or ownership update (storage_tracks_only_accepted); the offsets-topic "
             "reader forwards no offset, ownership, clear or delete request for a rejected group for any bytes (kafka_reader_forwards_only_accepted — false before the repair of the metadata path, "
             "found by the check); a notifier module is never notified, open or close, about a group its lists reject. Tie: storage, decode and notifier streams with list pairs; regexp matching is an oracle bit. "
             "The Zookeeper reader's gate is not yet tied by a stream (see note). Zookeeper reader: zk_reader_forwards_only_accepted (for every tree, op — Start, any later change, the re-initialisation after a session expiry — and verdict function of the lists, nothing is forwarded for a rejected group) and zk_reader_forwards_accepted_commits, over Model/ZkReader.lean, tied by the zkreader stream; the notifier modules' lists are also observed after the REAL Configure of the notifier coordinator (N conf ops: each module is constructed with its own lists and nothing else), and the storage module's and the Kafka consumer module's after THEIR real Configure (S sconf / D kconf ops: each list key absent, empty or a pattern; Model/StorageConf.lean; storage_accepts_iff, empty_string_sets_no_list: the empty string sets no list); zk_reader_rewalk_is_complete (after Start and after every session expiry each parsable commit of an accepted group in the tree is forwarded again). A refresh of the notifier's group records must not make any module hear anything (stray-notification); list expressions containing blanks are among the generated ones."),
    "note": ("Trusted: Lean kernel + standard axioms; harness; regexp engine as oracle. Partial: the Zookeeper reader path has a single accept gate (resetGroupListWatchAndAdd) that is read, not "
             "modelled; ZK watch dynamics are not modelled."),
}

TEXT["C20"] = {
    "design_ref": "DESIGN.md §4.20",
    "technique": "Lean 4: deep embedding of the text/template fragment + type checker with soundness theorem, applied by `decide` to the shipped templates and data schema REGENERATED from /repo on every run; + differential correspondence of the template evaluator model against the real executeTemplate",
    "text": ("Proof: Props/C20.lean proves (check_sound) that a template accepted by the model's type checker executes without error on EVERY value of the schema, for arbitrary "
             "library renderings; `decide` shows that each of the five shipped templates — parse trees, data schema and helper names are regenerated from /repo's working tree on every run by "
             "text/template/parse and by reflection over the value captured inside a real executeTemplate call — passes the checker against the schema refined by the status invariant "
             "(shipped_templates_check, shipped_templates_render); the invariant (a listed partition is non-nil with non-nil Start/End) is proved of the evaluator model for every window, clock and "
             "threshold (problem_partition_has_ends, notifier_view_meets_invariant) and composed (every_status_renders); the data offers exactly Cluster, Group, ID, Start, Extras, Result and the "
             "nine documented helpers (data_offers_documented_fields, helpers_offered). JSON clause: proved — an abstract interpreter (Model/TmplFlow.lean: jsonOk) reads a template as JSON with typed holes, running a JSON pushdown recogniser (Model/Json.lean) over the text; flow_sound/json_sound (Proofs/TmplJson.lean) prove that whatever exec renders for an accepted template is accepted by the recogniser for EVERY value of the data type whose strings are JSON-safe and whose floats are finite, using stack-extension and safe-string lemmas about the automaton (Proofs/JsonPda.lean) and the decimal-digit lemmas of core Lean for printed integers; `decide` shows the four shipped HTTP/Slack templates are accepted (shipped_json_templates_flow), hence shipped_json_templates_wellformed and, composed with the evaluator, every_status_renders_json. The theorem's assumptions about Go's own renderers (EnvOk: time.Format output JSON-safe, %v of a finite float32 a JSON number, json.Marshal output a JSON text) are evaluated by the driver on every real rendering of the run (spec tag envok), and the recogniser itself is compared with json.Valid on every real rendering. Tie: real executeTemplate vs the compiled model on "
             "shipped and generated templates, comparing error/no-error and the rendered bytes. The partition helpers of the function map are modelled declaratively (Model/TmplHelpers.lean) with topicsbystatus_lists_the_topics_of_each_status (a topic is under a status name iff one of its listed partitions is in that status), topicsbystatus_has_no_repeats and partitioncounts_counts_each_problem_once; every case of the stream also runs both REAL helpers through a template on the case's partition list and compares the sorted result (hlp=). A genuine defect (default-http-delete.tmpl used .Id) was found this way and repaired. The extras a notifier module hands its templates are compared with the configured ones after the REAL Coordinator.Configure (N conf, ex=; values with $, ${…}, %)."),
    "note": ("Trusted: Lean kernel + 3 standard axioms; the text/template model for the fragment in use (anything else is `unsup` and rejected by the checker); the fact generator (harness facts); "
             "Go's fmt/time/json renderings are parameters. Not modelled: templates with define/with/variables/parenthesised pipelines (rejected, reported as broken obligation if a shipped template "
             "starts using them). The tie is sampled."),
}

TEXT["C16"] = {
    "design_ref": "DESIGN.md §4.16",
    "technique": "Lean 4 theorems over a model of router + handlers parametrised by an arbitrary backend, instantiated with the route table REGENERATED from coordinator.go on every run; + differential correspondence of the real router/handlers (httptest, real storage, real evaluator) against the model",
    "text": ("Proof: Props/C16.lean proves, for EVERY backend (storage, evaluator, configuration) and world: every handler registered in the generated route table is modelled and answers 200 or 404, "
             "never a failure (every_routed_request_answered, routes_are_modelled by `decide` over the generated table); a path matching no pattern of any method, also after httprouter's "
             "normalisations, is answered 404 (unrouted_is_404); per storage-backed route, existing data gives 200/error=false with exactly the stored data and an unknown cluster/group/topic gives "
             "404/error=true (topic_list, topic_detail, topic_consumers, consumer_list, consumer_detail), status routes give 404 with status NOTFOUND and error=false (consumer_status); config routes "
             "give 404 for EVERY name that is not a configured module of that kind and 200 otherwise, for every configuration (unknown_config_is_404, unknown_notifier_is_404, known_config_is_200 — "
             "full strength since the repair of D15/D21: the handlers look the name up among the kind's keys instead of testing viper.IsSet on a key built from it; dotted_name_is_404); reads are pure except that a consumer "
             "lookup drops an already expired group (gets_are_pure, storage_lookup_only_drops_expired). Repaired: dotted names reached into viper paths and got 200 (D15), list-index names such as c0.servers.-1 made viper index out of "
             "range inside the handler (D21, found by the thorough tier). Known finding, with witness: DELETE answers 200 for unknown clusters/groups (D18, delete_unknown_witness). Tie: ~7700 requests per quick run over every route x odd parameters x methods "
             "against the real router wired to real storage and evaluator; status code, content type, envelope and headers compared. Requests are served through the handler of the LISTENER the real Configure built (timeout absent / 0 / positive), not the bare router."),
    "note": ("Trusted: Lean kernel + 3 standard axioms; httprouter as a contract (for an unmatched path ending in '/' both redirect and 404 are admitted: it depends on the radix tree); net/http, TLS, "
             "listeners not modelled; the harness decodes JSON with its own structs. The tie is sampled."),
}
TEXT["C17"] = {
    "design_ref": "DESIGN.md §4.17",
    "technique": "Lean 4 theorems over the handler payloads and a model of the Prometheus scrape (stateless after the repair) + differential correspondence of JSON bodies and parsed /metrics text against the composed storage+evaluator+cache model over ingest/delete/expire/scrape histories",
    "text": ("Proof: Props/C17.lean proves that every storage-backed handler's payload IS the backend's reply (json_detail_is_state, json_status_is_evaluation, json_lists_are_state); that a scrape "
             "writes, per group, the status's total lag and status and each listed partition's lag under that partition's own topic and id (metrics_equal_status, group_series_labelled), topic offsets "
             "by position (topic_series_by_position); that when every partition of a topic has an offset the topic reply lists each at its own position (topic_offsets_attribution_partial; "
             "shift_witness is known finding D8 — a leaderless partition shifts the positions); and that a scrape's series carry only clusters of the current listing, write nothing for a NOTFOUND "
             "group, and are a function of the current state only (scrape_reports_only_listed_clusters, notfound_group_writes_nothing, scrape_cluster_unfolds). Three genuine defects (series of deleted "
             "topics, of expired groups, and series resurrected by a scrape inside the cache lifetime lingered forever) were found by the differential run and repaired in /repo (one fix: commit). "
             "Tie: real storage + evaluator cache + HTTP + Prometheus registry vs the composed model; every field of every body and every series compared. S scrapeslow: a scrape while storage takes no request for 3.3 s waits and then reports what storage holds."),
    "note": ("Trusted: Lean kernel + 3 standard axioms; the Prometheus client as a map from label values to the last value; staleness within the evaluator cache lifetime is C05's allowance; "
             "float64 gauge values exact below 2^53. The tie is sampled."),
}
TEXT["C18"] = {
    "design_ref": "DESIGN.md §4.18",
    "technique": "Lean 4 non-interference theorem over the configuration model (responses are independent of password values, for all configurations, requests and backends) + generated list of viper key literals + differential correspondence on generated configurations rendered with two password assignments",
    "text": ("Proof: Props/C18.lean states the property as non-interference: for every backend, world, method and path, replacing the configuration by one with the same keys that "
             "differs only in the values of sasl.<p>.password / notifier.<n>.password leaves every response (and the world) unchanged. PROVED under the hypothesis Cfg.Plain — no configured key "
             "(module or profile name) itself contains a dot — (responses_independent_of_passwords_partial, handler_independent_of_passwords_partial), including dotted REQUEST names that reach "
             "into other sections, by a key-shape argument (not_password_of_suffix, leavesUnder_same) and the lemma that on a Plain configuration viper's longest-prefix, backtracking key "
             "resolution (modelled exactly: Cfg.search) walks the key's own components (Proofs/HttpViper.lean: search_plain, norm_plain). The one way in which the statement was false of the code "
             "without the hypothesis — D20: modules a and \"a.extras\", GET /v3/config/notifier/a showed the second module's table, password included, as the extras of a — was found by the "
             "check and repaired (0423094: the extras are read from the module's own table); dotted_module_no_longer_leaks states the repaired behaviour on that configuration; for EVERY configuration, "
             "dotted names included, no_keyed_read_lands_on_a_password proves that no setting a handler reads by key ever resolves to a password (Proofs/HttpViperSound.lean: search_sound — "
             "the model of viper's resolution takes a key only to a node whose raw keys spell it — and resolve_avoids_password); what remains outside the general statement are the values of "
             "the one table-valued read (a notifier's extras, from the module's own table), which rest on the differential run and the containment test. The "
             "scrape does not read configuration at all; `decide` over the facts REGENERATED from package httpserver shows that no viper key literal names a password/secret/token, that the "
             "model reads only suffixes that occur in the source, and pins the list of table-valued viper reads — each with its enclosing function and multiplicity (no_password_key_read, model_reads_only_source_literals, "
             "table_reads_are_the_modelled_ones). Tie: configurations of every module class and profile shape, with plain and dotted names (incl. the D20 pair), SASL profiles nested inside one another, passwords of several shapes "
             "(leading $, %…%, surrounding blanks, trailing newline), rendered with two random password assignments, all config routes x all names; each response equals the model's field by "
             "field; plus a containment TEST (labelled as a test) for the concrete password values, raw and JSON-escaped, on both sides. The handler under test is the one the whole configuration phase of Start leaves (every coordinator's real Configure, defaults merged into the model's configuration) for configurations without dotted keys whose other sections are accepted; every second such configuration has its notifier section supplied from code (map[string]string extras). One seeded change of round 8 (C18-m14: dotted module names re-nested by the configuration phase) is NOT detected — it needs a layered configuration model; see DESIGN 10.8."),
    "note": ("Trusted: Lean kernel + 3 standard axioms; viper modelled as a flattened raw-key-path map with its longest-prefix key resolution (validated differentially incl. dotted configured names; empty tables are leaves); log output and process environment not modelled. The tie is sampled. What is proved in general is the _partial statement (Plain configurations); the D20 leak outside it was repaired."),
}

TEXT["C19"] = {
    "design_ref": "DESIGN.md §4.19",
    "technique": "Lean 4: the configuration phase as ordered validation chains, proved equivalent to the declarative catalogue of requirements, + recover-handler/Start theorems; panic-site list REGENERATED from the source and pinned; + differential correspondence of the real configuration phase and the real Start on generated valid/invalid configurations",
    "text": ("Proof: Props/C19.lean proves configure_passes_iff_valid — the model of newCoordinators + every Configure (50 validation sites in execution order) passes iff the declarative catalogue "
             "`Valid` holds (server lists, referenced clusters/profiles, class names, one storage/evaluator module, legacy keys, patterns, templates, URLs/addresses, TLS files) — and from it "
             "invalid_refused (Start returns 1, nothing started), valid_accepted, never_crashes, refusal_names_a_violation, for every configuration; the coordinators take their modules in Go map order, "
             "so refusal_independent_of_module_order / refusal_site_is_possible show that acceptance does not depend on that order and characterise the set of sites a refusal may name (the tie accepts "
             "any of them: a thorough-tier false alarm on a configuration with two invalid clusters was corrected this way); original_handler_crashed documents the defect "
             "that was repaired (the recover handler re-panicked: every invalid configuration crashed Start); catalogue_is_the_sources pins the 70 panic sites regenerated from the Configure "
             "methods by go/ast, so an added, removed or reworded validation breaks an obligation. Tie: ~1000 generated configurations per quick run through the real configuration phase and the "
             "real Start; accepted/refused, which validation fired and Start's result compared with the model. verdict_ignores_earlier_runs: whatever ConfigurationValid the application context carried into Start, afterwards it says whether THIS configuration passed; tied by running the real Start a second time, for every refused configuration, on a context an earlier valid run has left marked valid (restart=)."),
    "note": ("Trusted: Lean kernel + 3 standard axioms; oracle bits for library decisions (regexp, templates, validators, Kafka version, file reads, key pairs) computed with Burrow's own calls; the "
             "harness's TOML rendering; module Start methods not modelled. The tie is sampled."),
}

TEXT["C08"] = {
    "design_ref": "DESIGN.md §4.8",
    "technique": "Lean 4: lock-discipline soundness theorem over an abstract worker machine + `decide` over the lock skeleton REGENERATED from inmemory.go (every control-flow path of every handler, routing table) + totality theorems for the read path over all state pairs; + concurrent differential/stress run of the module's real workers (race detector in the thorough tier)",
    "text": ("Proof (partial on the runtime clauses): Props/C08.lean proves over an abstract machine of workers executing handler paths that in every reachable configuration no two workers are "
             "simultaneously at accesses whose lock sets share a lock one side writes (no_data_race, via reachable_exclusive); `decide` shows on the skeleton regenerated from inmemory.go on every "
             "run (go/ast: all paths of all 12 handlers, helpers inlined) that every pair of conflicting accesses to the broker map, the group map, a group's topics and last-commit time is so "
             "excluded or is group state touched only by handlers hashed to the group's worker (handlers_disciplined), that every path is balanced and acquires locks in one acyclic order "
             "(paths_balanced, acquisition_ordered), hence — mechanised for an arbitrary rank function and with Go's RWMutex writer preference in the machine — whenever some worker has work left, "
             "some worker can step (no_deadlock, via Proofs/LocksProgress.lean: deadlock_free), and that exactly the five group-keyed request types are hashed (group_requests_are_hashed); storage_forwarder_keeps_arrival_order pins the regenerated control skeleton of the storage coordinator's forwarder (one loop: take a request, send it on the module's channel, take the next); same_group_in_order proves same-key requests reach "
             "one worker in arrival order; lag_pass_total_on_any_states proves the lag pass of fetchConsumer total for EVERY consumer snapshot and EVERY later broker state, so no interleaving of "
             "topic deletion, re-creation, commits and reads makes a read fail (read_never_fails, reply_is_snapshot). Two genuine defects were found by the concurrent run (and are refuted "
             "by `decide` on the pre-repair skeleton) and repaired: deleteTopic walked the group map unlocked (fatal concurrent map iteration), fetchConsumer indexed broker partitions by "
             "consumer partition id (index out of range after topic re-creation). Tie: the real module with 2-8 real workers; determined batches compared with the model, chaos batches "
             "judged by liveness, timeouts, snapshot immutability and internal consistency of every reply."),
    "note": ("Trusted: Lean kernel + 3 standard axioms; the go/ast skeleton extractor (locations by selector: clusterMap.broker, clusterMap.consumer, <group>.topics, <group>.lastCommit; a group's lock and "
             "state are taken to belong to the same receiver); the reduction from race-freedom to atomic critical sections; lock instances of one class are conflated in the skeleton (the deadlock theorem is generic in the rank function, so it "
             "covers instances ranked by class). Not modelled: Go memory model below locks, channel fairness. The tie is sampled; schedules are whatever the runtime produces."),
}

TEXT["C15"] = {
    "design_ref": "DESIGN.md §4.15",
    "technique": "Lean 4 invariant proofs over a transition system of manageEvalLoop + session events + request loops with the environment free to act at any point (atomic-step model) + real-time differential correspondence of the real loops against a scripted fake Zookeeper",
    "text": ("Proof: Props/C15.lean proves over EVERY sequence of lock failures, expiries, reconnections and other session events with any timing: resumes_only_after — the gate is (re)opened only "
             "after the connection was seen back, the old lock released and the lock acquired again, in that order; holder_only — in every reachable state the gate is open only between setting and "
             "clearing the flag, the manager waits only while it owns the lock and no expiry is uncounted (expiry_never_lost), and no sweep ever runs without the lock other than in the instants "
             "between an expiry and the manager clearing the flag (woken_clears); pacing — evaluation times of a continuously listed group are pairwise more than the shortest interval apart for "
             "any sweep times of any number of loops. holder_only is at full strength since the repair of D12 (fix 956740b: the manager notes the expiration count before Lock() and does not wait "
             "if it has changed); original_protocol_lost_the_wakeup proves, on the model of the ORIGINAL protocol, the defect that was found and repaired (an expiry broadcast between Lock() "
             "returning and Wait() was lost: the instance evaluated without the lock), early_expiry_is_seen that the same trace is now handled. Tie: real loops + real zookeeper coordinator vs "
             "the model's trace on scripted multi-cycle scenarios in real time, incl. the expiry delivered inside Lock(), flaps (expiry + reconnection before the manager runs) and irrelevant "
             "session events; Lock() calls made while the session is known to be gone are counted (prelock); scenarios in which nobody reads the evaluator channel for a while (stall=) check that a group is still requested at most once per started interval (burst); scenarios with 3-5 refused Lock() calls in a row and with several intervals without the lock between two owned windows. The notifier stream is judged here too (a refresh that cannot reach storage leaves the group records, LastEval included, alone)."),
    "note": ("Trusted: Lean kernel + 3 standard axioms; the atomic-step abstraction; real-time margins; the fake Zookeeper's semantics. Not modelled: preemption inside steps, the data race on the plain "
             "bool, the non-exclusive RLock around LastEval, Unlock failing after expiry (Burrow panics by design). The tie is sampled."),
}
