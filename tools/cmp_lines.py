#!/usr/bin/env python3
"""debug helper: tools/cmp_lines.py <dir> [max] — prints differing lines of impl/model with the resolved op"""
import sys
sys.path.insert(0,'/verif/checklib')
from orchestrator import line_diff, parse_out
d=sys.argv[1]; mx=int(sys.argv[2]) if len(sys.argv)>2 else 10
impl=open(d+'/impl').read().split('\n'); model=open(d+'/model').read().split('\n'); res=open(d+'/res').read().split('\n')
from collections import Counter
n=0; sig=Counter()
def uh(x):
    try: return bytes.fromhex(x).decode(errors='replace') if x and x!='-' else ''
    except Exception: return x
for i,(a,b) in enumerate(zip(impl,model)):
    if a.startswith('#'): continue
    if a.endswith(' tick'): continue
    df=line_diff(a,b,None)
    if df:
        n+=1; sig[','.join(df)]+=1
        if n<=mx:
            toks=res[i].split(' ')
            desc=' '.join(toks[:4])+' '+' '.join(uh(t) if len(t)>3 and all(c in '0123456789abcdef' for c in t) else t for t in toks[4:6])
            print(i, df, '|', desc[:160]); print('   impl:', a[:400]); print('   modl:', b[:400])
print(n,'diffs', sig.most_common(12))
