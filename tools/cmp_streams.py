#!/usr/bin/env python3
"""debug helper: tools/cmp_streams.py <impl> <model> <resolved> [max]  — prints differing lines"""
import sys
sys.path.insert(0,'/verif/checklib')
from orchestrator import line_diff, parse_out
impl=open(sys.argv[1]).read().split('\n'); model=open(sys.argv[2]).read().split('\n'); res=open(sys.argv[3]).read().split('\n')
mx=int(sys.argv[4]) if len(sys.argv)>4 else 12
n=0; from collections import Counter
kinds=Counter()
def uh(x):
    try: return bytes.fromhex(x) if x and x!='-' else b''
    except Exception: return x.encode()
for i,(a,b) in enumerate(zip(impl,model)):
    if a.startswith('#'): continue
    pa,pb=parse_out(a),parse_out(b)
    kinds[(pa.get('r'),pb.get('r'))]+=1
    d=line_diff(a,b,None)
    if d:
        n+=1
        if n<=mx:
            r=parse_out(res[i]); t=r.get('tmpl','')
            src=t if t.startswith('@') else uh(t).decode(errors='replace')
            print(i, d, pa.get('r'),pb.get('r'), repr(src)[:400], uh(pb.get('~why','')).decode())
            if 'out' in d: print('  impl:',uh(pa.get('out'))[:300]); print('  modl:',uh(pb.get('out'))[:300])
            if not t: print('  ', a[:200], '|', b[:200])
print(n,'diffs'); print(kinds)
