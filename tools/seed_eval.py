#!/usr/bin/env python3
"""usage: tools/seed_eval.py <seed-id> <patch> <prop> [<prop>...]   — runs the named checks (quick, then thorough if
quick misses) on /repo with the seeded change applied, restores /repo, records seeded/<seed-id>/detection.json"""
import json, os, re, subprocess, sys
sid, patch, props = sys.argv[1], os.path.abspath(sys.argv[2]), sys.argv[3:]
def git(*a): return subprocess.run(["git", "-C", "/repo"] + list(a), stdout=subprocess.PIPE, stderr=subprocess.STDOUT, text=True)
if git("diff", "--quiet").returncode != 0: sys.exit("/repo dirty")
if git("apply", patch).returncode != 0: sys.exit("patch does not apply")
det = {"seed_id": sid, "runs": []}
try:
    for p in props:
        for tier in ("quick", "thorough"):
            r = subprocess.run(["./check", p, "--tier", tier], cwd="/verif", stdout=subprocess.PIPE, stderr=subprocess.STDOUT, text=True)
            lines = [l for l in r.stdout.split("\n") if re.match(r"^(VIOLATION|KNOWN-FINDING|\[C)", l)]
            caught = any(l.startswith("VIOLATION") for l in lines)
            det["runs"].append({"check": f"./check {p} --tier {tier}", "exit": r.returncode, "caught": caught, "lines": [l[:300] for l in lines]})
            print(p, tier, "CAUGHT" if caught else "missed", [l[:160] for l in lines if l.startswith("VIOLATION")])
            if caught: break
finally:
    git("checkout", "--", "."); git("clean", "-fdq", "--", "core", "config")
det["caught"] = any(r["caught"] for r in det["runs"])
d = f"/verif/seeded/{sid}"; os.makedirs(d, exist_ok=True)
json.dump(det, open(os.path.join(d, "detection.json"), "w"), indent=1)
