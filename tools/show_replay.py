#!/usr/bin/env python3
import json,sys
r=json.load(open(sys.argv[1]))
print(r.get('differing_keys'), r.get('n_failing_lines'), r.get('reproduced_after_shrink'), len(r.get('ops',[])))
def uh(t):
    try: return bytes.fromhex(t).decode() if len(t)>1 and all(c in '0123456789abcdef' for c in t) and len(t)%2==0 else t
    except Exception: return t
for o in r.get('ops',[]):
    toks=o.split(' ')
    if len(toks)>1 and toks[1]=='httpinit': print('S httpinit ...'); continue
    print(' '.join(uh(t) for t in toks)[:170])
def ser(l):
    for tok in l.split(' '):
        if tok.startswith('series='): return set(tok[7:].split(';'))
    return None
if r.get('impl_out') and r.get('model_out'):
    a,b=ser(r['impl_out'][-1]),ser(r['model_out'][-1])
    def dec(x):
        name,rest=x.split('{'); labs,val=rest.split('}')
        return name.replace('burrow_kafka_','')+'{'+'|'.join(uh(l) for l in labs.split('|'))+'}'+val
    if a is not None and b is not None:
        print('impl-only:',[dec(x) for x in sorted(a-b)]); print('model-only:',[dec(x) for x in sorted(b-a)])
    else:
        print(r['impl_out'][-1][:500]); print(r['model_out'][-1][:500])
