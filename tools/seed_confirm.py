#!/usr/bin/env python3
"""usage: tools/seed_confirm.py <prop> <agent m-dir> <seed-id> [--wt <worktree>]
Confirms a seeded change in a scratch worktree (never in /repo): demo passes without it, fails with it,
the change compiles and every stable test of the baseline still passes; then stores it under /verif/seeded/<seed-id>/."""
import json, os, re, shutil, subprocess, sys
prop, mdir, sid = sys.argv[1:4]
wt = sys.argv[sys.argv.index("--wt") + 1] if "--wt" in sys.argv else f"/tmp/mut/{prop}/wt"
env = dict(os.environ, GOFLAGS="-mod=mod", GOPROXY="off"); env.pop("GOSUMDB", None)
def sh(cmd, **kw):
    p = subprocess.run(cmd, cwd=wt, env=env, stdout=subprocess.PIPE, stderr=subprocess.STDOUT, text=True, **kw)
    return p.returncode, p.stdout
def clean():
    sh(["git", "checkout", "--", "."]); sh(["git", "clean", "-fdq"])
clean()
demo_rel = open(os.path.join(mdir, "DEMO_PATH")).read().strip()
demo_src = open(os.path.join(mdir, "demo_test.go")).read()
tests = re.findall(r"^func (Test\w+)\(", demo_src, flags=re.M)
pkg = "./" + os.path.dirname(demo_rel)
run = ["go", "test", "-vet=off", "-count=1", "-timeout", "300s", "-run", "^(" + "|".join(tests) + ")$", pkg]
res = {"property": prop, "seed_id": sid, "demo_path": demo_rel, "demo_tests": tests, "ran": []}
shutil.copyfile(os.path.join(mdir, "demo_test.go"), os.path.join(wt, demo_rel))
rc0, out0 = sh(run); res["ran"].append({"cmd": " ".join(run), "tree": "unchanged", "rc": rc0})
rc, out = sh(["git", "apply", os.path.abspath(os.path.join(mdir, "patch.diff"))])
if rc != 0: print("patch does not apply", out); clean(); sys.exit(2)
rcb, outb = sh(["go", "build", "./..."]); res["ran"].append({"cmd": "go build ./...", "tree": "changed", "rc": rcb})
rc1, out1 = sh(run); res["ran"].append({"cmd": " ".join(run), "tree": "changed", "rc": rc1, "tail": out1[-600:]})
os.remove(os.path.join(wt, demo_rel))
full = ["go", "test", "-json", "-vet=off", "-count=1", "-timeout", "25m", "./..."]
rc2, out2 = sh(full)
status = {}
for ln in out2.split("\n"):
    try: e = json.loads(ln)
    except Exception: continue
    if e.get("Test") and e.get("Action") in ("pass", "fail", "skip"):
        status[e["Package"] + "::" + e["Test"]] = e["Action"]
base = json.load(open("/root/.vp/BASELINE.json"))
broken = [t for t in base["stable_pass"] if status.get(t) != "pass"]
res["ran"].append({"cmd": " ".join(full), "tree": "changed", "stable_pass_total": len(base["stable_pass"]), "stable_not_passing": broken})
clean()
ok = rc0 == 0 and rcb == 0 and rc1 != 0 and not broken
res["confirmed"] = ok
print(json.dumps({k: res[k] for k in ("confirmed",)}), "demo-unchanged rc", rc0, "build rc", rcb, "demo-changed rc", rc1, "stable broken", broken[:5])
if ok:
    d = f"/verif/seeded/{sid}"; os.makedirs(d, exist_ok=True)
    for f in ("patch.diff", "demo_test.go", "DEMO_PATH", "README.md"):
        if os.path.exists(os.path.join(mdir, f)): shutil.copyfile(os.path.join(mdir, f), os.path.join(d, f))
    meta = {"property": prop, "seed_id": sid, "breaks": "see README.md (written by the independent sub-agent)", "confirmation": res}
    json.dump(meta, open(os.path.join(d, "meta.json"), "w"), indent=1)
sys.exit(0 if ok else 1)
