#!/bin/bash
# usage: tools/mutcheck.sh <patch.diff> <tier> <prop> [<prop>...]
# Applies a seeded change to /repo, runs the named checks, and always restores /repo afterwards.
set -u
patch=$1; tier=$2; shift 2
cd /verif
if ! git -C /repo diff --quiet; then echo "/repo is dirty; refusing"; exit 2; fi
git -C /repo apply "$patch" || { echo "patch does not apply"; exit 2; }
trap 'git -C /repo checkout -- . ; git -C /repo clean -fdq -- core config >/dev/null 2>&1' EXIT
rc=0
for p in "$@"; do
  out=$(./check $p --tier $tier 2>&1 | grep -v '^WARNING conda')
  echo "$out" | grep -E '^(VIOLATION|KNOWN-FINDING|\[C)' | cut -c1-400
  if echo "$out" | grep -q '^VIOLATION'; then echo "== $p: CAUGHT"; else echo "== $p: missed"; rc=1; fi
done
exit $rc
