package main

import (
	"encoding/hex"
	"fmt"
	"sort"
	"strconv"
	"strings"
	"time"

	"github.com/IBM/sarama"

	"github.com/linkedin/Burrow/core/protocol"
	"github.com/linkedin/Burrow/core/verifhook"
)

// Stream "consume": the Kafka consumer module's REAL startKafkaConsumer — live consumers, backfill consumers and every
// partitionConsumer goroutine they start — against a scripted offsets topic (verifhook.FakeOffsetsTopic), then
// messages fed to the consumers it opened (C07; also C06, C10).
//
//	P start lat=<0|1> bf=<0|1> rep=<0|1> parts=<p,p|-|!> old=<p:o,…|-> new=<p:n,…|-> fc=<0|1|2> fp=<inst.part|-> fo=<part|-> fn=<part|->
//	   parts "!" = Partitions() fails; fc = the n-th NewConsumerFromClient call fails; fp = ConsumePartition fails on
//	   consumer instance inst (1 live, 2 backfill) for that partition; fo / fn = GetOffset(oldest / newest) fails
//	P msg c=<inst.part> off=<n> key=<hex|-> val=<hex|-> [kind=nil|err]
//	P stop
//
// Output: start: rc= closes= cons=<inst.part.from.closed,…>   msg: d=<sent|blocked|nocons> rep= reqs= term=   stop: stopped cons=…

func init() { register(&stream{name: "consume", gen: genConsume, run: runConsume}) }

func genConsume(g *gen) {
	n := 300 * g.scale
	for i := 0; i < n; i++ {
		g.newCase()
		var parts []int
		for _, p := range []int{0, 1, 2, 5} {
			if g.chance(1, 2) {
				parts = append(parts, p)
			}
		}
		ps := "-"
		if len(parts) > 0 {
			var xs []string
			for _, p := range parts {
				xs = append(xs, strconv.Itoa(p))
			}
			ps = strings.Join(xs, ",")
		}
		if g.chance(1, 15) {
			ps = "!"
		}
		old, nw := map[int]int64{}, map[int]int64{}
		var os, ns []string
		for _, p := range parts {
			old[p] = g.pick(0, 0, 1, 3, 5)
			nw[p] = old[p] + g.pick(0, 0, 1, 2, 3, 4, 6, -1)
			if nw[p] < 0 {
				nw[p] = 0
			}
			os = append(os, fmt.Sprintf("%d:%d", p, old[p]))
			ns = append(ns, fmt.Sprintf("%d:%d", p, nw[p]))
		}
		j := func(xs []string) string {
			if len(xs) == 0 {
				return "-"
			}
			return strings.Join(xs, ",")
		}
		bf := g.intn(3) > 0
		fc, fp, fo, fn := 0, "-", "-", "-"
		pickPart := func() string {
			if len(parts) == 0 {
				return "0"
			}
			return strconv.Itoa(parts[g.intn(len(parts))])
		}
		switch g.intn(12) {
		case 0:
			fc = 1 + g.intn(2)
		case 1:
			fp = fmt.Sprintf("%d.%s", 1+g.intn(2), pickPart())
		case 2:
			fo = pickPart()
		case 3:
			fn = pickPart()
		}
		g.emit("P start lat=%d bf=%d rep=%d parts=%s old=%s new=%s fc=%d fp=%s fo=%s fn=%s", g.intn(2), map[bool]int{false: 0, true: 1}[bf], g.intn(2), ps, j(os), j(ns), fc, fp, fo, fn)
		msgs := g.intn(14)
		lastOff := map[string]int64{}
		for m := 0; m < msgs; m++ {
			inst := 1 + g.intn(2)
			if !bf && !g.chance(1, 8) {
				inst = 1
			}
			p := 0
			if len(parts) > 0 && !g.chance(1, 12) {
				p = parts[g.intn(len(parts))]
			}
			c := fmt.Sprintf("%d.%d", inst, p)
			// offsets: ascending per consumer, placed around the backfill end (newest-1)
			off, seen := lastOff[c]
			if !seen {
				off = old[p]
				if inst == 1 {
					off = nw[p]
				}
				if inst == 2 && g.chance(2, 3) && nw[p] >= 2 {
					off = nw[p] - 2 - g.pick(0, 0, 1)
				}
			} else {
				off += g.pick(1, 1, 1, 2)
			}
			lastOff[c] = off
			switch g.intn(8) {
			case 0:
				g.emit("P msg c=%s off=%d key=- val=- kind=nil", c, off)
				lastOff[c] = off - 1
			case 1:
				g.emit("P msg c=%s off=%d key=- val=- kind=err", c, off)
				lastOff[c] = off - 1
			case 2:
				k, v := genMetadataMsg(g)
				g.emit("P msg c=%s off=%d key=%s val=%s", c, off, hexOrDash(k.b), hexOrDash(v.b))
			default:
				k, v := genOffsetMsg(g)
				g.emit("P msg c=%s off=%d key=%s val=%s", c, off, hexOrDash(k.b), hexOrDash(v.b))
			}
		}
		g.emit("P stop")
	}
}

func showCons(cs []*verifhook.FakePartitionConsumer) string {
	var xs []string
	for _, c := range cs {
		cl := 0
		if c.Closed() > 0 {
			cl = 1
		}
		if c.Closed() > 1 {
			cl = c.Closed()
		}
		xs = append(xs, fmt.Sprintf("%d.%d.%d.%d", c.Instance, c.Partition, c.StartFrom, cl))
	}
	sort.Strings(xs)
	if len(xs) == 0 {
		return "-"
	}
	return strings.Join(xs, ",")
}

func runConsume(r *runner) {
	var app *protocol.ApplicationContext
	var client *verifhook.KafkaClient
	var topic *verifhook.FakeOffsetsTopic
	started := false
	reported := ""
	stop := func() {
		if started {
			_ = client.Stop()
			started = false
		}
	}
	drain := func() []*protocol.StorageRequest {
		var out []*protocol.StorageRequest
		for len(app.StorageChannel) > 0 {
			out = append(out, <-app.StorageChannel)
		}
		return out
	}
	for {
		line, ok := r.next()
		if !ok {
			stop()
			return
		}
		r.resolve("%s", line)
		if strings.HasPrefix(line, "#") {
			r.reply("%s", line)
			continue
		}
		f := strings.Split(line, " ")
		kv := parseKV(f[2:])
		switch f[1] {
		case "start":
			stop()
			app = &protocol.ApplicationContext{StorageChannel: make(chan *protocol.StorageRequest, 1<<16)}
			client = verifhook.NewKafkaClient(app, "kc0", "c0", "", "")
			topic = &verifhook.FakeOffsetsTopic{Oldest: map[int32]int64{}, Newest: map[int32]int64{}, FailConsume: -1, FailOldest: -1, FailNewest: -1}
			switch kv["parts"] {
			case "!":
				topic.PartitionsFail = true
			case "-":
			default:
				for _, x := range strings.Split(kv["parts"], ",") {
					topic.PartitionIDs = append(topic.PartitionIDs, int32(atoi(x)))
				}
			}
			fill := func(m map[int32]int64, s string) {
				if s == "-" {
					return
				}
				for _, x := range strings.Split(s, ",") {
					pv := strings.Split(x, ":")
					m[int32(atoi(pv[0]))] = atoi(pv[1])
				}
			}
			fill(topic.Oldest, kv["old"])
			fill(topic.Newest, kv["new"])
			topic.FailConsumer = int(atoi(kv["fc"]))
			if kv["fp"] != "-" {
				ip := strings.Split(kv["fp"], ".")
				topic.FailConsumeOn, topic.FailConsume = int(atoi(ip[0])), int32(atoi(ip[1]))
			}
			if kv["fo"] != "-" {
				topic.FailOldest = int32(atoi(kv["fo"]))
			}
			if kv["fn"] != "-" {
				topic.FailNewest = int32(atoi(kv["fn"]))
			}
			reported = ""
			if kv["rep"] == "1" {
				reported = "burrow-kc0"
			}
			// how many ConsumePartition calls succeed is determined by the script alone (every backfill start runs to
			// its end even when another one has already reported an error): wait for them before reading the record
			want := 0
			if topic.FailConsumer != 1 && !topic.PartitionsFail {
				liveOK := true
				for _, p := range topic.PartitionIDs {
					if topic.FailConsumeOn == 1 && topic.FailConsume == p {
						liveOK = false
						break
					}
					want++
				}
				if liveOK && kv["bf"] == "1" && topic.FailConsumer != 2 {
					for _, p := range topic.PartitionIDs {
						if !(topic.FailConsumeOn == 2 && topic.FailConsume == p) {
							want++
						}
					}
				}
			}
			res := guard(func() string {
				err := client.StartKafkaConsumer(topic, "__consumer_offsets", kv["lat"] == "1", kv["bf"] == "1", reported)
				started = true
				rc := "ok"
				if err != nil {
					rc = "err"
				}
				// backfill starts that lost the race to report keep going: give them time to finish (closing an empty
				// partition's consumer is the last thing a start does)
				deadline := time.Now().Add(500 * time.Millisecond)
				stable := 0
				last := ""
				for time.Now().Before(deadline) {
					cur := showCons(topic.Consumers())
					if len(topic.Consumers()) >= want && cur == last {
						stable++
						if stable >= 3 {
							break
						}
					} else {
						stable = 0
					}
					last = cur
					time.Sleep(200 * time.Microsecond)
				}
				return fmt.Sprintf("rc=%s closes=%d cons=%s", rc, topic.ClientCloses(), showCons(topic.Consumers()))
			})
			r.reply("%s", res)
		case "msg":
			if !started {
				r.reply("bad-op")
				break
			}
			ip := strings.Split(kv["c"], ".")
			var pc *verifhook.FakePartitionConsumer
			for _, c := range topic.Consumers() {
				if c.Instance == int(atoi(ip[0])) && c.Partition == int32(atoi(ip[1])) {
					pc = c
				}
			}
			if pc == nil {
				r.reply("d=nocons")
				break
			}
			res := guard(func() string {
				drain()
				deliver := func(send func() bool) bool {
					return send()
				}
				sent := false
				switch kv["kind"] {
				case "nil":
					sent = deliver(func() bool {
						select {
						case pc.Msgs <- nil:
							return true
						case <-time.After(30 * time.Millisecond):
							return false
						}
					})
				case "err":
					sent = deliver(func() bool {
						select {
						case pc.Errs <- &sarama.ConsumerError{Topic: "__consumer_offsets", Partition: pc.Partition, Err: sarama.ErrOutOfBrokers}:
							return true
						case <-time.After(30 * time.Millisecond):
							return false
						}
					})
				default:
					var key, value []byte
					if kv["key"] != "-" {
						key, _ = hex.DecodeString(kv["key"])
					}
					if kv["val"] != "-" {
						value, _ = hex.DecodeString(kv["val"])
					}
					msg := &sarama.ConsumerMessage{Key: key, Value: value, Offset: atoi(kv["off"]), Topic: "__consumer_offsets", Partition: pc.Partition}
					sent = deliver(func() bool {
						select {
						case pc.Msgs <- msg:
							return true
						case <-time.After(30 * time.Millisecond):
							return false
						}
					})
				}
				if !sent {
					return "d=blocked"
				}
				// the loop has taken the message; it is done with it when it takes the next one (a nil message: skipped)
				// or when it has ended (its deferred AsyncClose has run)
				term := 0
				for {
					done := false
					select {
					case pc.Msgs <- nil:
						done = true
					case <-time.After(200 * time.Microsecond):
						if pc.Closed() > 0 {
							term, done = 1, true
						}
					}
					if done {
						break
					}
				}
				rep, reqs := "-", []string{}
				for i, q := range drain() {
					if i == 0 && reported != "" && q.RequestType == protocol.StorageSetConsumerOffset && q.Group == reported {
						rep = fmt.Sprintf("O:%s:%s:%d:%d:%d", hexName(q.Group), hexName(q.Topic), q.Partition, q.Offset, q.Order)
						if q.Cluster != "c0" {
							rep += ":cluster=" + q.Cluster
						}
						continue
					}
					reqs = append(reqs, showReq(q))
				}
				sort.Strings(reqs)
				rs := "-"
				if len(reqs) > 0 {
					rs = strings.Join(reqs, ",")
				}
				return fmt.Sprintf("d=sent rep=%s reqs=%s term=%d", rep, rs, term)
			})
			r.reply("%s", res)
		case "stop":
			if !started {
				r.reply("bad-op")
				break
			}
			res := guard(func() string {
				stop()
				return "stopped cons=" + showCons(topic.Consumers())
			})
			r.reply("%s", res)
		default:
			r.reply("bad-op")
		}
	}
}
