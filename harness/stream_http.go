package main

import (
	"bytes"
	"encoding/json"
	"fmt"
	"math"
	"math/rand"
	"net/http"
	"net/http/httptest"
	"net/url"
	"os"
	"sort"
	"strconv"
	"strings"
	"sync/atomic"
	"time"

	"github.com/spf13/viper"
	"go.uber.org/zap"

	"github.com/linkedin/Burrow/core"
	"github.com/linkedin/Burrow/core/protocol"
	"github.com/linkedin/Burrow/core/verifhook"
)

// HTTP ops of the storage runner (streams "http", "confhttp"; C16, C17, C18):
//
//	S httpinit <toml hex>                      viper.Reset + load; real httpserver.Configure; evaluator pump
//	S http <METHOD> <raw url hex>              resolved: S http <now> <METHOD> <decoded path hex> <cfg leaves>
//	S scrape                                   GET /metrics, resolved: S scrape <now>
//	S deltopicm <cluster> <topic>              what the cluster module does for a vanished topic (request + DeleteTopicMetrics)
//	S delgroupm <cluster> <group>              what the reaper does (request + DeleteConsumerMetrics)
//
// Responses are decoded with the harness's OWN struct definitions of the documented JSON (not with
// Burrow's types, whose tags are under test) and printed canonically.

type httpState struct {
	handler http.Handler
	cfgLine string
}

func newRand(seed int64) *rand.Rand { return rand.New(rand.NewSource(seed)) }

// documented JSON shapes (https://github.com/linkedin/Burrow/wiki/HTTP-Endpoint)
type jOffset struct {
	Offset    int64   `json:"offset"`
	Timestamp int64   `json:"timestamp"`
	Lag       *uint64 `json:"lag"`
}
type jPartition struct {
	Offsets    []*jOffset `json:"offsets"`
	Owner      string     `json:"owner"`
	ClientID   string     `json:"client_id"`
	CurrentLag uint64     `json:"current-lag"`
}
type jPartStatus struct {
	Topic      string   `json:"topic"`
	Partition  int32    `json:"partition"`
	Owner      string   `json:"owner"`
	ClientID   string   `json:"client_id"`
	Status     string   `json:"status"`
	Start      *jOffset `json:"start"`
	End        *jOffset `json:"end"`
	CurrentLag uint64   `json:"current_lag"`
	Complete   float32  `json:"complete"`
}
type jStatus struct {
	Cluster    string         `json:"cluster"`
	Group      string         `json:"group"`
	Status     string         `json:"status"`
	Complete   float32        `json:"complete"`
	Partitions []*jPartStatus `json:"partitions"`
	Count      int            `json:"partition_count"`
	Maxlag     *jPartStatus   `json:"maxlag"`
	TotalLag   uint64         `json:"totallag"`
}

var statusNumbers = map[string]int{"NOTFOUND": 0, "OK": 1, "WARN": 2, "ERR": 3, "STOP": 4, "STALL": 5, "REWIND": 6}

func jShowOffset(o *jOffset) string {
	if o == nil {
		return "nil"
	}
	l := "-"
	if o.Lag != nil {
		l = strconv.FormatUint(*o.Lag, 10)
	}
	return fmt.Sprintf("%d:%d:%s", o.Offset, o.Timestamp, l)
}

func jStatusNum(s string) int {
	if n, ok := statusNumbers[s]; ok {
		return n
	}
	return -1
}

func renderJStatus(st *jStatus) string {
	var parts []string
	for _, p := range st.Partitions {
		parts = append(parts, fmt.Sprintf("%s/%d/%d/%d/%08x/%s/%s/%s/%s", hexName(p.Topic), p.Partition, jStatusNum(p.Status), p.CurrentLag,
			math.Float32bits(p.Complete), jShowOffset(p.Start), jShowOffset(p.End), hexName(p.Owner), hexName(p.ClientID)))
	}
	sort.Strings(parts)
	ps := "-"
	if len(parts) > 0 {
		ps = strings.Join(parts, ",")
	}
	maxlag := "-"
	if st.Maxlag != nil {
		maxlag = strconv.FormatUint(st.Maxlag.CurrentLag, 10)
	}
	return fmt.Sprintf("rc=%s rg=%s gs=%d complete=%08x count=%d total=%d maxlag=%s parts=%s", hexName(st.Cluster), hexName(st.Group), jStatusNum(st.Status),
		math.Float32bits(st.Complete), st.Count, st.TotalLag, maxlag, ps)
}

func renderJTopics(topics map[string][]*jPartition) string {
	var names []string
	for t := range topics {
		names = append(names, hexName(t))
	}
	sort.Strings(names)
	var out []string
	for _, hn := range names {
		var ps []string
		for _, p := range topics[unhexName(hn)] {
			es := make([]string, len(p.Offsets))
			for i, o := range p.Offsets {
				es[i] = jShowOffset(o)
			}
			e := strings.Join(es, ";")
			if len(es) == 0 {
				e = "-"
			}
			ps = append(ps, fmt.Sprintf("%d/%s/%s/%s", p.CurrentLag, hexName(p.Owner), hexName(p.ClientID), e))
		}
		out = append(out, hn+"["+strings.Join(ps, "|")+"]")
	}
	if len(out) == 0 {
		return "-"
	}
	return strings.Join(out, ",")
}

// flattenModule prints a config module object as sorted name=value pairs (nested objects dotted)
func flattenModule(prefix string, v interface{}, out *[]string) {
	switch x := v.(type) {
	case map[string]interface{}:
		if prefix == "extra" || strings.HasSuffix(prefix, ".extra") {
			var kv []string
			for k, e := range x {
				kv = append(kv, hexName(k)+":"+hexName(fmt.Sprint(e)))
			}
			sort.Strings(kv)
			s := strings.Join(kv, ",")
			if s == "" {
				s = "-"
			}
			*out = append(*out, prefix+"=m:"+s)
			return
		}
		if len(x) == 0 && prefix != "" {
			// an empty nested object is still a field of the response (a map-valued setting nobody configured)
			*out = append(*out, prefix+"=m:-")
		}
		for k, e := range x {
			p := k
			if prefix != "" {
				p = prefix + "." + k
			}
			flattenModule(p, e, out)
		}
	case []interface{}:
		var es []string
		for _, e := range x {
			es = append(es, hexName(fmt.Sprint(e)))
		}
		s := strings.Join(es, ",")
		if s == "" {
			s = "-"
		}
		*out = append(*out, prefix+"=l:"+s)
	case nil:
		if prefix == "servers" {
			*out = append(*out, prefix+"=l:-")
		} else if prefix == "extra" {
			*out = append(*out, prefix+"=m:-")
		} else {
			*out = append(*out, prefix+"=null")
		}
	case string:
		*out = append(*out, prefix+"=s:"+hexName(x))
	case bool:
		*out = append(*out, fmt.Sprintf("%s=b:%v", prefix, x))
	case json.Number:
		*out = append(*out, prefix+"=i:"+x.String())
	default:
		*out = append(*out, fmt.Sprintf("%s=?:%v", prefix, x))
	}
}

func canonicalBody(body []byte) (errFlag string, canon string) {
	dec := json.NewDecoder(bytes.NewReader(body))
	dec.UseNumber()
	var top map[string]json.RawMessage
	if err := dec.Decode(&top); err != nil {
		return "-", "kind=unparsed"
	}
	errFlag = "-"
	if e, ok := top["error"]; ok {
		errFlag = string(e)
	}
	names := func(key string) (string, bool) {
		raw, ok := top[key]
		if !ok {
			return "", false
		}
		var l []string
		if json.Unmarshal(raw, &l) != nil {
			return "", false
		}
		return fmt.Sprintf("kind=names key=%s list=%s", key, sortedHexList(l)), true
	}
	if raw, ok := top["status"]; ok {
		var st jStatus
		if err := json.Unmarshal(raw, &st); err == nil {
			return errFlag, "kind=status " + renderJStatus(&st)
		}
	}
	if raw, ok := top["topics"]; ok && len(raw) > 0 && raw[0] == '{' {
		var t map[string][]*jPartition
		if err := json.Unmarshal(raw, &t); err == nil {
			return errFlag, "kind=topics t=" + renderJTopics(t)
		}
	}
	for _, k := range []string{"clusters", "topics", "consumers"} {
		if s, ok := names(k); ok {
			return errFlag, s
		}
	}
	if raw, ok := top["offsets"]; ok {
		var l []int64
		if json.Unmarshal(raw, &l) == nil {
			return errFlag, "kind=offsets offs=" + fmtInts(l)
		}
	}
	if raw, ok := top["modules"]; ok {
		var l []string
		var coord string
		_ = json.Unmarshal(top["coordinator"], &coord)
		if json.Unmarshal(raw, &l) == nil {
			return errFlag, fmt.Sprintf("kind=modlist coord=%s list=%s", coord, sortedHexList(l))
		}
	}
	if raw, ok := top["module"]; ok {
		d := json.NewDecoder(bytes.NewReader(raw))
		d.UseNumber()
		var v interface{}
		if d.Decode(&v) == nil {
			var out []string
			flattenModule("", v, &out)
			sort.Strings(out)
			return errFlag, "kind=module mod=" + strings.Join(out, ";")
		}
	}
	return errFlag, "kind=plain"
}

// cfgHasDottedKeys: does any table of the loaded configuration have a key that itself contains a dot (a quoted TOML key
// such as [notifier."a.extras"])?  viper resolves such keys layer by layer (override, file, defaults); the model carries
// one merged tree, which is faithful only as long as the layers cannot disagree about where a dotted key lives.
func cfgHasDottedKeys() bool {
	dotted := false
	var walk func(v interface{})
	walk = func(v interface{}) {
		if m, ok := v.(map[string]interface{}); ok {
			for k, e := range m {
				if strings.Contains(k, ".") {
					dotted = true
				}
				walk(e)
			}
		}
	}
	tops := map[string]bool{}
	for _, k := range viper.AllKeys() {
		tops[strings.SplitN(k, ".", 2)[0]] = true
	}
	for top := range tops {
		walk(viper.Get(top))
	}
	return dotted
}

// cfgLeaves prints the loaded configuration as flattened leaves for the model: path(hex raw keys joined by ".")=kind:value.
// The raw nested maps are taken per top-level key with viper.Get (AllSettings would re-split and merge keys that
// themselves contain dots, e.g. [notifier."a.b"]); an empty table is a leaf of kind m.
func cfgLeaves() string {
	var out []string
	var walk func(path []string, v interface{})
	walk = func(path []string, v interface{}) {
		switch x := v.(type) {
		case map[string]interface{}:
			if len(x) == 0 {
				out = append(out, strings.Join(path, ".")+"=m:-")
			}
			for k, e := range x {
				walk(append(append([]string{}, path...), hexName(k)), e)
			}
		case map[string]string:
			if len(x) == 0 {
				out = append(out, strings.Join(path, ".")+"=m:-")
			}
			for k, e := range x {
				walk(append(append([]string{}, path...), hexName(k)), e)
			}
		case []interface{}:
			var es []string
			for _, e := range x {
				es = append(es, hexName(fmt.Sprint(e)))
			}
			s := strings.Join(es, ",")
			if s == "" {
				s = "-"
			}
			out = append(out, strings.Join(path, ".")+"=l:"+s)
		case string:
			out = append(out, strings.Join(path, ".")+"=s:"+hexName(x))
		case bool:
			out = append(out, fmt.Sprintf("%s=b:%v", strings.Join(path, "."), x))
		case int64:
			out = append(out, fmt.Sprintf("%s=i:%d", strings.Join(path, "."), x))
		case int:
			out = append(out, fmt.Sprintf("%s=i:%d", strings.Join(path, "."), x))
		default:
			out = append(out, fmt.Sprintf("%s=s:%s", strings.Join(path, "."), hexName(fmt.Sprint(x))))
		}
	}
	tops := map[string]bool{}
	for _, k := range viper.AllKeys() {
		tops[strings.SplitN(k, ".", 2)[0]] = true
	}
	for top := range tops {
		walk([]string{hexName(top)}, viper.Get(top))
	}
	// settings that exist only as defaults (SetDefault by a coordinator's or module's Configure) are not part of the raw
	// maps above: add every key viper knows that no emitted leaf covers
	have := map[string]bool{}
	for _, leaf := range out {
		have[leaf[:strings.IndexByte(leaf, '=')]] = true
	}
	covered := func(path string) bool {
		for h := range have {
			if h == path || strings.HasPrefix(h, path+".") || strings.HasPrefix(path, h+".") {
				return true
			}
		}
		return false
	}
	defaultKeys := viper.AllKeys()
	if cfgHasDottedKeys() {
		defaultKeys = nil // such configurations are served by the HTTP server's own Configure alone (see httpinit)
	}
	for _, k := range defaultKeys {
		parts := strings.Split(k, ".")
		for i := range parts {
			parts[i] = hexName(parts[i])
		}
		if path := strings.Join(parts, "."); !covered(path) {
			n := len(out)
			walk(parts, viper.Get(k))
			for _, leaf := range out[n:] {
				have[leaf[:strings.IndexByte(leaf, '=')]] = true
			}
		}
	}
	sort.Strings(out)
	if len(out) == 0 {
		return "-"
	}
	return strings.Join(out, ";")
}

func (s *storageRunner) evalPump() {
	for req := range s.app.EvaluatorChannel {
		go func(req *protocol.EvaluatorRequest) {
			defer func() {
				if r := recover(); r != nil {
					req.Reply <- &protocol.ConsumerGroupStatus{Cluster: req.Cluster, Group: req.Group, Status: protocol.StatusConstant(-99)}
				}
			}()
			s.ev.Request(req)
		}(req)
	}
}

func (s *storageRunner) freezeCache() {
	if s.ev == nil {
		return
	}
	t := time.Now()
	s.ev.AgeCache(-t.Sub(s.evRef))
	s.evRef = t
}

func parsePromSeries(text string) string {
	var out []string
	for _, ln := range strings.Split(text, "\n") {
		if !strings.HasPrefix(ln, "burrow_") {
			continue
		}
		sp := strings.LastIndexByte(ln, ' ')
		head, val := ln[:sp], ln[sp+1:]
		name, labels := head, ""
		if i := strings.IndexByte(head, '{'); i >= 0 {
			name, labels = head[:i], head[i+1:len(head)-1]
		}
		lv := map[string]string{}
		// label values are Go-quoted strings
		for len(labels) > 0 {
			eq := strings.IndexByte(labels, '=')
			k := labels[:eq]
			rest := labels[eq+1:]
			q, err := strconv.QuotedPrefix(rest)
			if err != nil {
				break
			}
			uq, _ := strconv.Unquote(q)
			lv[k] = uq
			labels = strings.TrimPrefix(rest[len(q):], ",")
		}
		var ls []string
		for _, k := range []string{"cluster", "consumer_group", "topic", "partition"} {
			if v, ok := lv[k]; ok {
				ls = append(ls, hexName(v))
			}
		}
		f, _ := strconv.ParseFloat(val, 64)
		out = append(out, fmt.Sprintf("%s{%s}=%d", name, strings.Join(ls, "|"), int64(f)))
	}
	sort.Strings(out)
	if len(out) == 0 {
		return "-"
	}
	return strings.Join(out, ";")
}

func (s *storageRunner) httpStep(r *runner, f []string, line string) bool {
	switch f[1] {
	case "secrets":
		// the configured password values of this case (for the containment test, labelled as a test)
		s.secrets = nil
		if f[2] != "-" {
			for _, h := range strings.Split(f[2], ",") {
				s.secrets = append(s.secrets, unhexName(h))
			}
		}
		r.resolve("%s", line)
		r.reply("ok")
	case "httpinit":
		viper.Reset()
		viper.SetConfigType("toml")
		if err := viper.ReadConfig(strings.NewReader(unhexName(f[2]))); err != nil {
			r.resolve("%s", line)
			r.reply("bad-op")
			return true
		}
		verifhook.ResetMetrics()
		if s.app.EvaluatorChannel == nil {
			s.app.EvaluatorChannel = make(chan *protocol.EvaluatorRequest)
			lvl := zap.NewAtomicLevelAt(zap.InfoLevel)
			s.app.Logger, s.app.LogLevel = zap.NewNop(), &lvl
			go s.evalPump()
		}
		reload := func() {
			viper.Reset()
			viper.SetConfigType("toml")
			_ = viper.ReadConfig(strings.NewReader(unhexName(f[2])))
			// an embedding application supplies its configuration from code, where a table of strings is naturally a
			// map[string]string: every second configuration has its notifier section set that way, extras tables as
			// map[string]string (same content)
			dotted := false
			if mods, ok := viper.Get("notifier").(map[string]interface{}); ok {
				for name := range mods {
					// (with a dotted module name beside it viper treats a map[string]string as a leaf that shadows the
					// other module's keys: a resolution rule of the override layer the model does not carry)
					dotted = dotted || strings.Contains(name, ".")
				}
			}
			if mods, ok := viper.Get("notifier").(map[string]interface{}); ok && len(f[2])%2 == 0 && !dotted {
				section := map[string]interface{}{}
				for name, tbl := range mods {
					t, isTable := tbl.(map[string]interface{})
					if !isTable {
						section[name] = tbl
						continue
					}
					nt := map[string]interface{}{}
					for k, v := range t {
						nt[k] = v
						if ex, isMap := v.(map[string]interface{}); isMap && k == "extras" {
							m, plain := map[string]string{}, true
							for ek, ev := range ex {
								sv, isString := ev.(string)
								plain = plain && isString
								m[ek] = sv
							}
							if plain {
								nt[k] = m
							}
						}
					}
					section[name] = nt
				}
				viper.Set("notifier", section)
			}
		}
		reload()
		// the template files the generated notifier sections name (relative to the working directory), so that the
		// notifier coordinator's Configure can parse them
		if _, err := os.Stat("conf/open.tmpl"); err != nil {
			// (in a scratch directory of its own: the process works there from now on; all its files were opened before)
			if dir, derr := os.MkdirTemp("", "burrowverif-http-"); derr == nil {
				_ = os.Chdir(dir)
				scratchDirs = append(scratchDirs, dir)
			}
			_ = os.MkdirAll("conf", 0o755)
			_ = os.WriteFile("conf/open.tmpl", []byte("{{.Cluster}} {{.Group}} {{.Result.Status}}"), 0o644)
			_ = os.WriteFile("conf/close.tmpl", []byte("{{.Cluster}} {{.Group}} closed"), 0o644)
		}
		res := guard(func() string {
			// the server as Start builds it: every coordinator's real Configure in Start's order (the notifier modules get
			// their extras, the defaults of every module are set); a configuration another coordinator refuses is served
			// by the HTTP server's own Configure alone
			var h http.Handler
			valid := false
			if !cfgHasDottedKeys() {
				h, valid, _ = core.VerifConfigureHTTP(s.app)
			}
			if h != nil && valid {
				s.http = &httpState{handler: h}
				return "ok"
			}
			reload()
			s.http = &httpState{handler: verifhook.NewHTTPHandler(s.app)}
			return "ok"
		})
		// the configuration as the model sees it (after Configure: it may add a default listener)
		s.http.cfgLine = cfgLeaves()
		r.resolve("S httpinit %s", s.http.cfgLine)
		r.reply("%s", res)
	case "http":
		if s.http == nil || s.ev == nil || s.st == nil {
			r.resolve("%s", line)
			r.reply("bad-op")
			return true
		}
		method, raw := f[2], unhexName(f[3])
		now := stableNow()
		s.freezeCache()
		u, perr := url.ParseRequestURI(raw)
		if perr != nil {
			r.resolve("S http %d %s invalid", now, method)
			r.reply("code=400 ct=none err=- hdr=- kind=invalid-url")
			return true
		}
		before := atomic.LoadInt64(&s.served)
		req := httptest.NewRequest(method, "http://burrow.test"+raw, http.NoBody)
		rec := httptest.NewRecorder()
		res := guard(func() string {
			s.http.handler.ServeHTTP(rec, req)
			ct := "none"
			switch {
			case strings.HasPrefix(rec.Header().Get("Content-Type"), "application/json"):
				ct = "json"
			case strings.HasPrefix(rec.Header().Get("Content-Type"), "text/"):
				ct = "text"
			}
			hdr := "-"
			if l := rec.Header().Get("Location"); l != "" {
				// the redirect target as a decoded path
				if lu, err := url.Parse(l); err == nil {
					hdr = hexName(lu.Path)
				} else {
					hdr = hexName(l)
				}
			} else if a := rec.Header().Get("Allow"); a != "" {
				hdr = hexName(a)
			}
			errFlag, canon := "-", "kind=plain"
			if rec.Body.Len() > 0 && (ct == "json" || rec.Code == 404) {
				errFlag, canon = canonicalBody(rec.Body.Bytes())
			} else if rec.Body.Len() == 0 {
				canon = "kind=empty"
			}
			if len(u.Path) > 1 && strings.HasSuffix(u.Path, "/") && (rec.Code == 301 || rec.Code == 307 || rec.Code == 308 || (rec.Code == 404 && ct == "text")) {
				// trailing slash on an unmatched path: httprouter redirects or not depending on its radix tree; both admitted
				return "code=tsr"
			}
			leak := ""
			for _, sec := range s.secrets {
				if bytes.Contains(rec.Body.Bytes(), []byte(sec)) {
					leak = " leak=1"
				}
				// inside a JSON string the value appears escaped (a quote, a backslash, a newline in the password)
				if esc, err := json.Marshal(sec); err == nil && len(esc) > 2 && bytes.Contains(rec.Body.Bytes(), esc[1:len(esc)-1]) {
					leak = " leak=1"
				}
				for _, hv := range rec.Header() {
					if strings.Contains(strings.Join(hv, ","), sec) {
						leak = " leak=1"
					}
				}
			}
			return fmt.Sprintf("code=%d ct=%s err=%s hdr=%s %s%s", rec.Code, ct, errFlag, hdr, canon, leak)
		})
		if method == "DELETE" && strings.HasPrefix(res, "code=200") {
			// the handler only hands the request to storage: wait until storage has executed it
			deadline := time.Now().Add(time.Second)
			for atomic.LoadInt64(&s.served) == before && time.Now().Before(deadline) {
				time.Sleep(100 * time.Microsecond)
			}
		} else if strings.Contains(res, "gs=0 ") {
			// a cached error is answered at once and refreshed in the background: let that refresh finish
			deadline := time.Now().Add(300 * time.Millisecond)
			for atomic.LoadInt64(&s.served) == before && time.Now().Before(deadline) {
				time.Sleep(200 * time.Microsecond)
			}
			time.Sleep(2 * time.Millisecond)
		}
		if time.Now().Unix() != now {
			res += " tick"
		}
		r.resolve("S http %d %s %s", now, method, hexName(u.Path))
		r.reply("%s", res)
	case "scrape", "scrapeslow":
		if s.http == nil || s.ev == nil || s.st == nil {
			r.resolve("%s", line)
			r.reply("bad-op")
			return true
		}
		now := stableNow()
		s.freezeCache()
		req := httptest.NewRequest("GET", "http://burrow.test/metrics", http.NoBody)
		rec := httptest.NewRecorder()
		var released time.Time
		var relDone chan struct{}
		if f[1] == "scrapeslow" {
			// S scrapeslow: the same scrape while the storage subsystem takes no request for 3.3 s (its workers are busy):
			// the scrape waits and then reports what storage holds — it is resolved as a plain scrape
			if s.hold == nil {
				s.hold = make(chan struct{})
			}
			wait := 3300 * time.Millisecond
			if ns := time.Now().Add(wait).Nanosecond(); ns > 880000000 || ns < 30000000 {
				wait += 170 * time.Millisecond // end the wait away from a second boundary
			}
			// the wait is not cache time
			s.ev.AgeCache(-wait)
			s.evRef = s.evRef.Add(wait)
			s.app.StorageChannel <- nil
			relDone = make(chan struct{})
			go func() {
				defer close(relDone)
				time.Sleep(wait)
				released = time.Now()
				s.hold <- struct{}{}
			}()
		}
		res := guard(func() string {
			s.http.handler.ServeHTTP(rec, req)
			return fmt.Sprintf("code=%d series=%s", rec.Code, parsePromSeries(rec.Body.String()))
		})
		if relDone != nil {
			// a scrape that did not wait for storage returns early: storage is released all the same before going on, and
			// the clock value the model is given is the one at the release (when a waiting scrape evaluates)
			<-relDone
			now = released.Unix()
		}
		time.Sleep(3 * time.Millisecond) // background refreshes of cached errors
		if time.Now().Unix() != now {
			res += " tick"
		}
		r.resolve("S scrape %d", now)
		r.reply("%s", res)
	case "deltopicm":
		r.resolve("S deltopic %s %s", f[2], f[3])
		res := s.call(&protocol.StorageRequest{RequestType: protocol.StorageSetDeleteTopic, Cluster: unhexName(f[2]), Topic: unhexName(f[3])})
		verifhook.DeleteTopicMetrics(unhexName(f[2]), unhexName(f[3]))
		r.reply("%s", res)
	case "delgroupm":
		r.resolve("S delgroup %s %s -", f[2], f[3])
		res := s.call(&protocol.StorageRequest{RequestType: protocol.StorageSetDeleteGroup, Cluster: unhexName(f[2]), Group: unhexName(f[3])})
		verifhook.DeleteConsumerMetrics(unhexName(f[2]), unhexName(f[3]))
		r.reply("%s", res)
	default:
		return false
	}
	return true
}

// ---------------------------------------------------------------------------------------------
// generation: stream "http" (C16, C17)

func init() {
	register(&stream{name: "http", gen: genHTTP, run: runStorage})
}

type tomlDoc struct{ b strings.Builder }

func tomlQuote(s string) string { return strconv.Quote(s) }

func (t *tomlDoc) section(path ...string) {
	qs := make([]string, len(path))
	for i, p := range path {
		qs[i] = tomlQuote(p)
	}
	fmt.Fprintf(&t.b, "\n[%s]\n", strings.Join(qs, "."))
}
func (t *tomlDoc) str(k, v string)          { fmt.Fprintf(&t.b, "%s = %s\n", tomlQuote(k), tomlQuote(v)) }
func (t *tomlDoc) num(k string, v int64)    { fmt.Fprintf(&t.b, "%s = %d\n", tomlQuote(k), v) }
func (t *tomlDoc) boolean(k string, v bool) { fmt.Fprintf(&t.b, "%s = %v\n", tomlQuote(k), v) }
func (t *tomlDoc) list(k string, vs []string) {
	qs := make([]string, len(vs))
	for i, v := range vs {
		qs[i] = tomlQuote(v)
	}
	fmt.Fprintf(&t.b, "%s = [%s]\n", tomlQuote(k), strings.Join(qs, ", "))
}

func httpBaseConfig(g *gen, clusters []string) string {
	t := &tomlDoc{}
	t.section("general")
	t.str("pidfile", "burrow.pid")
	t.section("zookeeper")
	t.list("servers", []string{"zk1:2181"})
	t.section("client-profile", "prof")
	t.str("client-id", "burrow-client")
	t.str("kafka-version", "2.0.0")
	for i, c := range clusters {
		t.section("cluster", c)
		t.str("class-name", "kafka")
		t.list("servers", []string{"k" + strconv.Itoa(i) + ":9092", "k9:9092"})
		t.num("topic-refresh", 60+int64(i))
		if i == 0 {
			t.str("client-profile", "prof")
		}
	}
	t.section("consumer", "cons0")
	t.str("class-name", "kafka")
	t.str("cluster", clusters[0])
	t.list("servers", []string{"k0:9092"})
	t.boolean("start-latest", true)
	t.section("storage", "mystorage")
	t.str("class-name", "inmemory")
	t.num("intervals", 7)
	t.section("evaluator", "myeval")
	t.str("class-name", "caching")
	t.num("expire-cache", 11)
	t.section("notifier", "nulln")
	t.str("class-name", "null")
	t.num("interval", 30)
	t.section("notifier", "nulln", "extras")
	t.str("app", "x")
	// the listener whose handler the requests of this case go through: its timeout setting absent, 0 (none), or positive
	if to := g.pick(-1, 0, 0, 2, 300); true {
		t.section("httpserver", "api")
		t.str("address", ":0")
		if to >= 0 {
			t.num("timeout", to)
		}
	}
	return t.b.String()
}

var httpParamPool = []string{"nope", "C0", "c0.servers", "c0.class-name", "a b", "ü", "a%2Fb", "%00", "%20", ".", "..", "x..y", "nulln.extras", "cons0.servers.0", "c0.servers.0", "c0.servers.-1", "cons0.servers.-1", "c0.servers.00", "+", "%2e%2e",
	// characters that Unicode case FOLDING (not lower-casing) identifies with ASCII letters: long s, Kelvin sign
	"my\u017ftorage", "con\u017f0", "nulln\u212a", "\u212a", "C\u2070",
	// a second round of percent-decoding would change these
	"a+b", "a%2Bb", "p%2Fq", "x%20y", "%25"}

func escSeg(s string) string {
	// names are path-escaped, except the pool entries that are raw escapes themselves
	if strings.Contains(s, "%") {
		return s
	}
	return url.PathEscape(s)
}

func genHTTP(g *gen) {
	n := 60 * g.scale
	clusters := []string{"c0", "c 1"}
	// "a+b" and "p%2Fq" are literal group names: a handler that decodes the path parameter once more loses them
	groups := []string{"g0", "g.1", "ü", "x y", "a+b", "p%2Fq"}
	topics := []string{"t0", "t1"}
	for i := 0; i < n; i++ {
		g.newCase()
		var cl []string
		for _, c := range clusters {
			cl = append(cl, hexName(c))
		}
		intervals := 1 + g.intn(3)
		expireGroup := g.pick(3600, 3600, 30)
		g.emit("S init %d %d 0 - - %s", intervals, expireGroup, strings.Join(cl, ","))
		g.emit("S httpinit %s", hexName(httpBaseConfig(g, clusters)))
		g.emit("S cacheinit %d %08x %d", g.pick(5, 10, 10), math.Float32bits(float32(g.pick(0, 0, 1))), g.pick(0, 0, 1000))
		pick := func(pool []string) string {
			if g.chance(1, 5) {
				return httpParamPool[g.intn(len(httpParamPool))]
			}
			return pool[g.intn(len(pool))]
		}
		known := func(pool []string) string { return hexName(pool[g.intn(len(pool))]) }
		// broker offsets: topic t0 complete, topic t1 with a partition that never gets an offset (no leader)
		for _, c := range clusters {
			g.emit("S broker %s %s 0 2 %d 1", hexName(c), hexName("t0"), g.pick(100, 150))
			g.emit("S broker %s %s 1 2 %d 1", hexName(c), hexName("t0"), g.pick(100, 150))
			if g.chance(1, 2) {
				g.emit("S broker %s %s 1 3 %d 1", hexName(c), hexName("t1"), g.pick(10, 20))
			} else {
				g.emit("S broker %s %s 0 3 %d 1", hexName(c), hexName("t1"), g.pick(10, 20))
				g.emit("S broker %s %s 1 3 %d 1", hexName(c), hexName("t1"), g.pick(10, 20))
				g.emit("S broker %s %s 2 3 %d 1", hexName(c), hexName("t1"), g.pick(10, 20))
			}
		}
		order := int64(0)
		steps := 25 + g.intn(40)
		req := func(method string, segs ...string) {
			es := make([]string, len(segs))
			for k, s := range segs {
				es[k] = escSeg(s)
			}
			path := "/" + strings.Join(es, "/")
			switch g.intn(40) {
			case 0:
				path += "/"
			case 1:
				path = strings.ToUpper(path[:4]) + path[4:]
			case 2:
				path = strings.Replace(path, "/", "//", 1)
			case 3:
				path += "/extra"
			case 4:
				path = "/v3/../v3" + strings.TrimPrefix(path, "/v3")
			}
			g.emit("S cage 8")
			g.emit("S http %s %s", method, hexName(path))
		}
		for s := 0; s < steps; s++ {
			switch x := g.intn(100); {
			case x < 22:
				order++
				g.emit("S commit %s %s %s %d %d %d %d", known(clusters), known(groups), known(topics), g.intn(3), 90+order, order, -20000+order*500)
			case x < 26:
				g.emit("S broker %s %s %d 2 %d 1", known(clusters), hexName("t0"), g.intn(2), 100+order*3)
			case x < 29:
				g.emit("S owner %s %s %s %d %s %s", known(clusters), known(groups), known(topics), g.intn(2), hexName("host-"+strconv.Itoa(g.intn(3))), hexName("client"))
			case x < 32:
				g.emit("S delgroup %s %s -", known(clusters), known(groups))
			case x < 34:
				g.emit("S delgroup %s %s %s", known(clusters), known(groups), known(topics))
			case x < 36:
				g.emit("S delgroupm %s %s", known(clusters), known(groups))
			case x < 39:
				g.emit("S deltopicm %s %s", known(clusters), known(topics))
			case x < 41:
				req("DELETE", "v3", "kafka", pick(clusters), "consumer", pick(groups))
			case x < 43:
				req("DELETE", "v3", "kafka", pick(clusters), "consumer", pick(groups), "topic", pick(topics))
			case x < 46:
				g.emit("S shift %d", g.pick(5000, 20000, 40000))
			case x < 52:
				g.emit("S cage %d", g.pick(0, 1, 4, 5, 6, 9, 10, 11, 30)*1000+8)
			case x < 62:
				g.emit("S cage 8")
				g.emit("S scrape")
			case x < 64:
				req(g.pickS("POST", "PUT", "OPTIONS", "DELETE", "HEAD"), "v3", "kafka", pick(clusters), g.pickS("topic", "consumer"))
			case x < 66:
				req("GET", g.pickS("v3", "v2", "V3", ""), g.pickS("kafka", "nothing", "config", "admin"), g.pickS("", "x", "storage"))
			default:
				switch g.intn(20) {
				case 0:
					req("GET", "v3", "kafka")
				case 1:
					req("GET", "v3", "kafka", pick(clusters))
				case 2:
					req("GET", "v3", "kafka", pick(clusters), "topic")
				case 3, 4:
					req("GET", "v3", "kafka", pick(clusters), "topic", pick(topics))
				case 5:
					req("GET", "v3", "kafka", pick(clusters), "topic", pick(topics), "consumers")
				case 6:
					req("GET", "v3", "kafka", pick(clusters), "consumer")
				case 7, 8, 9:
					req("GET", "v3", "kafka", pick(clusters), "consumer", pick(groups))
				case 10, 11:
					req("GET", "v3", "kafka", pick(clusters), "consumer", pick(groups), "status")
				case 12, 13:
					req("GET", "v3", "kafka", pick(clusters), "consumer", pick(groups), "lag")
				case 14:
					req("GET", "v3", "config", g.pickS("storage", "evaluator", "cluster", "consumer", "notifier"))
				case 15:
					req("GET", "v3", "config", "storage", pick([]string{"mystorage"}))
				case 16:
					req("GET", "v3", "config", "evaluator", pick([]string{"myeval"}))
				case 17:
					req("GET", "v3", "config", "cluster", pick(clusters))
				case 18:
					req("GET", "v3", "config", "consumer", pick([]string{"cons0"}))
				default:
					req("GET", "v3", "config", "notifier", pick([]string{"nulln"}))
				}
			}
		}
		// the frame: everything is read once more at the end, and the metrics scraped after the cache lifetime
		g.emit("S cage 30008")
		if i%40 == 5 {
			g.emit("S scrapeslow")
		} else {
			g.emit("S scrape")
		}
		for _, c := range clusters {
			req("GET", "v3", "kafka", c, "consumer")
			for _, t := range topics {
				req("GET", "v3", "kafka", c, "topic", t)
			}
			for _, gr := range groups {
				req("GET", "v3", "kafka", c, "consumer", gr)
				req("GET", "v3", "kafka", c, "consumer", gr, "lag")
			}
		}
		if i%3 == 0 {
			// module names in other cases (viper folds case: 200) and in spellings that only Unicode case FOLDING, not
			// lower-casing, identifies with them (long s, Kelvin sign: 404)
			for _, kn := range [][2]string{{"storage", "MyStorage"}, {"storage", "my\u017ftorage"}, {"evaluator", "MYEVAL"}, {"consumer", "con\u017f0"},
				{"consumer", "CONS0"}, {"notifier", "nulln\u212a"}, {"notifier", "NullN"}, {"cluster", "C0"}, {"cluster", "c\u2070"}} {
				req("GET", "v3", "config", kn[0], kn[1])
			}
			req("GET", "v3", "kafka", "C0")
		}
	}
}

// ---------------------------------------------------------------------------------------------
// generation: stream "confhttp" (C18) — configurations of every shape, every config route, two password assignments

func init() { register(&stream{name: "confhttp", gen: genConfHTTP, run: runStorage}) }

func randSecret(g *gen) string {
	const al = "abcdefghijklmnopqrstuvwxyzABCDEFGHIJKLMNOPQRSTUVWXYZ0123456789"
	b := make([]byte, 20)
	for i := range b {
		b[i] = al[g.intn(len(al))]
	}
	// shapes a "helpful" diagnostic might react to: a leading $ (looks like an unexpanded variable), %…%, stray
	// whitespace around the value, quotes
	switch g.intn(8) {
	case 0:
		return "$" + string(b)
	case 1:
		return "%" + string(b) + "%"
	case 2:
		return " pw-" + string(b) + " "
	case 3:
		return "pw-" + string(b) + "\n"
	case 4:
		return "${" + string(b) + "}"
	}
	return "pw-" + string(b)
}

func genConfHTTP(g *gen) {
	n := 25 * g.scale
	for i := 0; i < n; i++ {
		// one configuration shape, rendered twice with different secrets
		seed := g.rnd.Int63()
		usedNames := map[string]bool{}
		nameOf := func(r *gen, kind string, k int) string {
			pool := []string{kind + strconv.Itoa(k), "with space", "ünï", "password", "UPPER", "extras"}
			try := func(nm string) (string, bool) {
				if !usedNames[kind+"/"+nm] {
					usedNames[kind+"/"+nm] = true
					return nm, true
				}
				return "", false
			}
			if r.chance(1, 4) {
				if nm, ok := try(strings.ToLower(pool[1+r.intn(len(pool)-1)])); ok {
					return nm
				}
			}
			// names that themselves contain dots: viper resolves "<kind>.<name>.<key>" by longest matching prefix, so a
			// module named like another module's sub-key collides with it (D20)
			if k > 0 && r.chance(1, 4) {
				if nm, ok := try(kind + "0." + r.pickS("extras", "password", "class-name", "x", "servers")); ok {
					return nm
				}
			}
			if r.chance(1, 8) {
				if nm, ok := try(r.pickS("x.y", "a.b.c", "dot.", ".lead", "x.y.z")); ok {
					return nm
				}
			}
			nm, _ := try(pool[0])
			return nm
		}
		render := func(pwSeed int64) (string, []string, map[string][]string) {
			usedNames = map[string]bool{}
			r := &gen{rnd: newRand(seed)}
			pw := &gen{rnd: newRand(pwSeed)}
			var secrets []string
			secret := func() string { s := randSecret(pw); secrets = append(secrets, s); return s }
			names := map[string][]string{}
			t := &tomlDoc{}
			t.section("general")
			t.str("pidfile", "burrow.pid")
			if r.chance(1, 2) {
				t.str("access-control-allow-origin", "*")
			}
			t.section("zookeeper")
			t.list("servers", []string{"zk1:2181", "zk2:2181"})
			t.num("timeout", 6)
			nsasl, ntls, nprof := r.intn(3), r.intn(2), 1+r.intn(3)
			for k := 0; k < nsasl; k++ {
				nm := nameOf(r, "sasl", k)
				names["sasl"] = append(names["sasl"], nm)
				t.section("sasl", nm)
				t.str("username", "user"+strconv.Itoa(k))
				t.str("password", secret())
				t.boolean("handshake-first", r.chance(1, 2))
				if r.chance(1, 4) {
					// a profile nested inside this one ([sasl.<nm>.east]: a profile of its own, named "<nm>.east"): its
					// settings are a sub-table of <nm>'s table
					t.section("sasl", nm, "east")
					t.str("username", "east"+strconv.Itoa(k))
					t.str("password", secret())
					t.str("mechanism", "SCRAM-SHA-256")
				}
			}
			for k := 0; k < ntls; k++ {
				nm := nameOf(r, "tls", k)
				names["tls"] = append(names["tls"], nm)
				t.section("tls", nm)
				t.str("certfile", "/etc/cert.pem")
				t.str("keyfile", "/etc/key.pem")
				t.boolean("noverify", r.chance(1, 2))
			}
			for k := 0; k < nprof; k++ {
				nm := nameOf(r, "prof", k)
				names["client-profile"] = append(names["client-profile"], nm)
				t.section("client-profile", nm)
				t.str("client-id", "burrow-"+strconv.Itoa(k))
				t.str("kafka-version", r.pickS("2.0.0", "0.10.2", "1.1.0"))
				if nsasl > 0 && r.chance(2, 3) {
					t.str("sasl", names["sasl"][r.intn(nsasl)])
				}
				if ntls > 0 && r.chance(1, 2) {
					t.str("tls", names["tls"][r.intn(ntls)])
				}
			}
			ncl := 1 + r.intn(2)
			for k := 0; k < ncl; k++ {
				nm := nameOf(r, "cl", k)
				names["cluster"] = append(names["cluster"], nm)
				t.section("cluster", nm)
				t.str("class-name", "kafka")
				t.list("servers", []string{"k1:9092", "k2:9092"})
				t.str("client-profile", names["client-profile"][r.intn(nprof)])
				t.num("offset-refresh", 10+int64(k))
			}
			ncons := r.intn(3)
			for k := 0; k < ncons; k++ {
				nm := nameOf(r, "cons", k)
				names["consumer"] = append(names["consumer"], nm)
				t.section("consumer", nm)
				if r.chance(1, 2) {
					t.str("class-name", "kafka")
					t.list("servers", []string{"k1:9092"})
					t.str("offsets-topic", "__consumer_offsets")
				} else {
					t.str("class-name", "kafka_zk")
					t.list("servers", []string{"zk1:2181"})
					t.str("zookeeper-path", "/kafka")
					t.num("zookeeper-timeout", 30)
				}
				t.str("cluster", names["cluster"][r.intn(ncl)])
				t.str("client-profile", names["client-profile"][r.intn(nprof)])
				t.str("group-allowlist", "^prod")
			}
			t.section("storage", "st")
			t.str("class-name", "inmemory")
			t.num("expire-group", 604800)
			t.section("evaluator", "ev")
			t.str("class-name", "caching")
			nnot := r.intn(4)
			for k := 0; k < nnot; k++ {
				nm := nameOf(r, "not", k)
				cls := r.pickS("http", "email", "slack", "null")
				if k == 1 && i%4 == 0 && !usedNames["not/"+names["notifier"][0]+".extras"] {
					// the D20 pair: a module named like the first module's extras table, holding a password
					nm = names["notifier"][0] + ".extras"
					usedNames["not/"+nm] = true
					cls = r.pickS("http", "email")
				}
				names["notifier"] = append(names["notifier"], nm)
				t.section("notifier", nm)
				t.str("class-name", cls)
				t.num("interval", 30)
				t.num("threshold", 2)
				t.str("template-open", "conf/open.tmpl")
				sendClose := r.chance(1, 2)
				t.boolean("send-close", sendClose)
				if sendClose {
					t.str("template-close", "conf/close.tmpl")
				}
				switch cls {
				case "http":
					t.str("url-open", "https://hooks.example/open")
					t.str("method-open", "POST")
					if sendClose {
						t.str("url-close", "https://hooks.example/close")
						t.str("method-close", "POST")
					}
					t.str("username", "hookuser")
					t.str("password", secret())
					t.num("timeout", 5)
				case "email":
					t.str("server", "smtp.example")
					t.num("port", 587)
					t.str("auth-type", "plain")
					t.str("username", "mailer")
					t.str("password", secret())
					t.str("from", "burrow@example")
					t.str("to", "ops@example")
				case "slack":
					t.str("channel", "#alerts")
					t.str("username", "burrow")
					t.str("icon-emoji", ":fire:")
				}
				if r.chance(1, 2) {
					t.section("notifier", nm, "extras")
					t.str("api_key", "visible-by-design")
					t.str("app", "burrow")
				}
			}
			return t.b.String(), secrets, names
		}
		for round := 0; round < 2; round++ {
			g.newCase()
			toml, secrets, names := render(seed*31 + int64(round) + 1)
			g.emit("S init 2 3600 0 - - %s", hexName("c0"))
			hs := make([]string, len(secrets))
			for k, s := range secrets {
				hs[k] = hexName(s)
			}
			sec := strings.Join(hs, ",")
			if sec == "" {
				sec = "-"
			}
			g.emit("S secrets %s", sec)
			g.emit("S httpinit %s", hexName(toml))
			g.emit("S cacheinit 10 00000000 0")
			rq := &gen{rnd: newRand(seed + 7)} // the same requests in both rounds
			reqs := []string{"/v3/config", "/v3/kafka"}
			for _, kind := range []string{"storage", "evaluator", "cluster", "consumer", "notifier"} {
				reqs = append(reqs, "/v3/config/"+kind)
				pool := append(append([]string{}, names[kind]...), "st", "ev", "nope")
				for _, nm := range pool {
					reqs = append(reqs, "/v3/config/"+kind+"/"+url.PathEscape(nm))
					if kind == "cluster" {
						reqs = append(reqs, "/v3/kafka/"+url.PathEscape(nm))
					}
				}
				// dotted paths into the configuration, including towards the secrets
				for _, nm := range names[kind] {
					reqs = append(reqs, "/v3/config/"+kind+"/"+url.PathEscape(nm+"."+rq.pickS("password", "username", "extras", "class-name", "servers")))
				}
			}
			for _, nm := range names["sasl"] {
				reqs = append(reqs, "/v3/config/notifier/"+url.PathEscape(nm), "/v3/config/consumer/"+url.PathEscape("../sasl/"+nm), "/v3/kafka/"+url.PathEscape(nm+".password"))
			}
			for _, p := range reqs {
				g.emit("S cage 8")
				g.emit("S http GET %s", hexName(p))
			}
		}
	}
}
