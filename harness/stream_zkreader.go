package main

import (
	"errors"
	"fmt"
	"regexp"
	"sort"
	"strconv"
	"strings"
	"sync"
	"time"

	"github.com/linkedin/go-zk"
	"github.com/spf13/viper"

	"github.com/linkedin/Burrow/core/protocol"
	"github.com/linkedin/Burrow/core/verifhook"
)

// Stream "zkreader" (C10, C07): the REAL Zookeeper offsets reader (consumer.KafkaZkClient: Configure, Start, every
// watch goroutine) against an in-memory Zookeeper tree with real watch semantics (one-shot child / data / exists
// watches, all invalidated when the session expires).
//
//	R cfg <allowRe|-> <denyRe|->
//	R set <group> <topic> <partition> <offset text> <owner>      before start: builds the tree silently
//	R start                                                     the module's Start: everything it forwards while walking
//	R expire                                                    session expiry + reconnection: every watch is re-made
//
// resolved: set … acc=<0|1> parse=<-|value> zxid=<n> new=<0|1>; output: fw=<sorted forwarded requests>
//   o/<group>/<topic>/<partition>/<offset>/<order>/<timestamp>   w/<group>/<topic>/<partition>/<owner>
// Partitions of a topic are created densely (0, 1, 2, …), as consumers of a topic do.

func init() { register(&stream{name: "zkreader", gen: genZkReader, run: runZkReader}) }

type zkNode struct {
	data     []byte
	mzxid    int64
	children map[string]*zkNode
}

type fakeZkTree struct {
	mu     sync.Mutex
	root   *zkNode
	childW map[string][]chan zk.Event
	dataW  map[string][]chan zk.Event
	existW map[string][]chan zk.Event
	zxid   int64
}

func newFakeZkTree() *fakeZkTree {
	return &fakeZkTree{root: &zkNode{children: map[string]*zkNode{}}, childW: map[string][]chan zk.Event{},
		dataW: map[string][]chan zk.Event{}, existW: map[string][]chan zk.Event{}}
}

func (t *fakeZkTree) find(path string) *zkNode {
	n := t.root
	for _, seg := range strings.Split(strings.Trim(path, "/"), "/") {
		if seg == "" {
			continue
		}
		c, ok := n.children[seg]
		if !ok {
			return nil
		}
		n = c
	}
	return n
}

func (t *fakeZkTree) stat(n *zkNode) *zk.Stat { return &zk.Stat{Mzxid: n.mzxid, Mtime: n.mzxid * 1000} }

func (t *fakeZkTree) Close() { t.invalidate() }
func (t *fakeZkTree) ChildrenW(path string) ([]string, *zk.Stat, <-chan zk.Event, error) {
	t.mu.Lock()
	defer t.mu.Unlock()
	n := t.find(path)
	if n == nil {
		return nil, nil, nil, zk.ErrNoNode
	}
	var names []string
	for c := range n.children {
		names = append(names, c)
	}
	sort.Strings(names)
	ch := make(chan zk.Event, 1)
	t.childW[path] = append(t.childW[path], ch)
	return names, t.stat(n), ch, nil
}
func (t *fakeZkTree) GetW(path string) ([]byte, *zk.Stat, <-chan zk.Event, error) {
	t.mu.Lock()
	defer t.mu.Unlock()
	n := t.find(path)
	if n == nil {
		return nil, nil, nil, zk.ErrNoNode
	}
	ch := make(chan zk.Event, 1)
	t.dataW[path] = append(t.dataW[path], ch)
	return append([]byte{}, n.data...), t.stat(n), ch, nil
}
func (t *fakeZkTree) Exists(path string) (bool, *zk.Stat, error) {
	t.mu.Lock()
	defer t.mu.Unlock()
	n := t.find(path)
	if n == nil {
		return false, nil, nil
	}
	return true, t.stat(n), nil
}
func (t *fakeZkTree) ExistsW(path string) (bool, *zk.Stat, <-chan zk.Event, error) {
	t.mu.Lock()
	defer t.mu.Unlock()
	n := t.find(path)
	ch := make(chan zk.Event, 1)
	if n == nil {
		t.existW[path] = append(t.existW[path], ch)
		return false, nil, ch, nil
	}
	t.dataW[path] = append(t.dataW[path], ch)
	return true, t.stat(n), ch, nil
}
func (t *fakeZkTree) Create(p string, _ []byte, _ int32, _ []zk.ACL) (string, error) {
	return p, errors.New("read-only fake")
}
func (t *fakeZkTree) NewLock(string) protocol.ZookeeperLock { return nil }

// invalidate: the session is gone — every outstanding watch reports EventNotWatching
func (t *fakeZkTree) invalidate() {
	t.mu.Lock()
	var all []chan zk.Event
	for _, m := range []map[string][]chan zk.Event{t.childW, t.dataW, t.existW} {
		for p, l := range m {
			all = append(all, l...)
			delete(m, p)
		}
	}
	t.mu.Unlock()
	for _, ch := range all {
		ch <- zk.Event{Type: zk.EventNotWatching}
	}
}

// set writes data at path, creating what is missing, and fires the watches ZooKeeper would fire — after the whole
// change is in place
func (t *fakeZkTree) set(path string, data string) (zxid int64, created bool) {
	type fire struct {
		ch chan zk.Event
		ev zk.Event
	}
	var fires []fire
	t.mu.Lock()
	t.zxid++
	zxid = t.zxid
	n := t.root
	cur := ""
	segs := strings.Split(strings.Trim(path, "/"), "/")
	for i, seg := range segs {
		parent := cur
		if parent == "" {
			parent = "/"
		}
		cur += "/" + seg
		c, ok := n.children[seg]
		if !ok {
			c = &zkNode{children: map[string]*zkNode{}, mzxid: zxid}
			n.children[seg] = c
			if i == len(segs)-1 {
				created = true
			}
			for _, ch := range t.childW[strings.TrimSuffix(parent, "/")] {
				fires = append(fires, fire{ch, zk.Event{Type: zk.EventNodeChildrenChanged, Path: parent}})
			}
			delete(t.childW, strings.TrimSuffix(parent, "/"))
			for _, ch := range t.existW[cur] {
				fires = append(fires, fire{ch, zk.Event{Type: zk.EventNodeCreated, Path: cur}})
			}
			delete(t.existW, cur)
		}
		n = c
	}
	if !created {
		for _, ch := range t.dataW[cur] {
			fires = append(fires, fire{ch, zk.Event{Type: zk.EventNodeDataChanged, Path: cur}})
		}
		delete(t.dataW, cur)
	}
	n.data = []byte(data)
	n.mzxid = zxid
	t.mu.Unlock()
	for _, f := range fires {
		f.ch <- f.ev
	}
	return zxid, created
}

type zkReaderRun struct {
	tree    *fakeZkTree
	app     *protocol.ApplicationContext
	events  chan zk.Event
	mod     *verifhook.KafkaZkClient
	allow   *regexp.Regexp
	deny    *regexp.Regexp
	mu      sync.Mutex
	got     []string
	last    time.Time
	started bool
}

func (z *zkReaderRun) pump() {
	for req := range z.app.StorageChannel {
		z.mu.Lock()
		switch req.RequestType {
		case protocol.StorageSetConsumerOffset:
			z.got = append(z.got, fmt.Sprintf("o/%s/%s/%d/%d/%d/%d", hexName(req.Group), hexName(req.Topic), req.Partition, req.Offset, req.Order, req.Timestamp))
		case protocol.StorageSetConsumerOwner:
			z.got = append(z.got, fmt.Sprintf("w/%s/%s/%d/%s", hexName(req.Group), hexName(req.Topic), req.Partition, hexName(req.Owner)))
		default:
			z.got = append(z.got, fmt.Sprintf("x/%d", int(req.RequestType)))
		}
		z.last = time.Now()
		z.mu.Unlock()
	}
}

// settle waits until the module has been silent for 40 ms and returns what it forwarded meanwhile
func (z *zkReaderRun) settle() string {
	start := time.Now()
	for {
		time.Sleep(5 * time.Millisecond)
		z.mu.Lock()
		quiet := time.Since(z.last) > 40*time.Millisecond && time.Since(start) > 40*time.Millisecond
		z.mu.Unlock()
		if quiet || time.Since(start) > 3*time.Second {
			break
		}
	}
	z.mu.Lock()
	defer z.mu.Unlock()
	out := append([]string{}, z.got...)
	z.got = z.got[:0]
	sort.Strings(out)
	if len(out) == 0 {
		return "fw=-"
	}
	return "fw=" + strings.Join(out, ";")
}

func runZkReader(r *runner) {
	var z *zkReaderRun
	for {
		line, ok := r.next()
		if !ok {
			return
		}
		if strings.HasPrefix(line, "#") {
			r.resolve("%s", line)
			r.reply("%s", line)
			continue
		}
		f := strings.Split(line, " ")
		if len(f) < 2 || f[0] != "R" {
			r.resolve("%s", line)
			r.reply("bad-op")
			continue
		}
		switch f[1] {
		case "cfg":
			if z != nil && z.app != nil {
				z.tree.invalidate()
			}
			z = &zkReaderRun{tree: newFakeZkTree(), events: make(chan zk.Event, 8),
				app: &protocol.ApplicationContext{StorageChannel: make(chan *protocol.StorageRequest)}}
			z.tree.set("/consumers", "")
			viper.Reset()
			root := "verif-consumer.zk"
			viper.Set(root+".class-name", "kafka_zk")
			viper.Set(root+".servers", []string{"zk1:2181"})
			viper.Set(root+".cluster", "c0")
			if f[2] != "-" {
				viper.Set(root+".group-allowlist", unhexName(f[2]))
				z.allow = regexp.MustCompile(unhexName(f[2]))
			}
			if f[3] != "-" {
				viper.Set(root+".group-denylist", unhexName(f[3]))
				z.deny = regexp.MustCompile(unhexName(f[3]))
			}
			res := guard(func() string {
				z.mod = verifhook.NewKafkaZkClient(z.app, "zk", root, z.tree, z.events)
				return "ok"
			})
			go z.pump()
			r.resolve("R cfg")
			r.reply("%s", res)
		case "set":
			if z == nil || len(f) < 7 {
				r.resolve("%s", line)
				r.reply("bad-op")
				continue
			}
			group, topic, part, text, owner := unhexName(f[2]), unhexName(f[3]), f[4], unhexName(f[5]), unhexName(f[6])
			acc := 1
			if (z.allow != nil && !z.allow.MatchString(group)) || (z.deny != nil && z.deny.MatchString(group)) {
				acc = 0
			}
			parse := "-"
			if v, err := strconv.ParseInt(text, 10, 64); err == nil {
				parse = strconv.FormatInt(v, 10)
			}
			// the owner first (nothing watches the owners tree), then the offset, whose watches fire
			z.tree.set("/consumers/"+group+"/owners/"+topic+"/"+part, owner)
			zxid, created := z.tree.set("/consumers/"+group+"/offsets/"+topic+"/"+part, text)
			r.resolve("R set %s %s %s %s acc=%d parse=%s zxid=%d new=%d started=%d", f[2], f[3], part, f[6], acc, parse, zxid, b2i(created), b2i(z.started))
			if z.started {
				r.reply("%s", z.settle())
			} else {
				r.reply("fw=-")
			}
		case "start":
			if z == nil || z.started {
				r.resolve("%s", line)
				r.reply("bad-op")
				continue
			}
			r.resolve("%s", line)
			z.started = true
			res := guard(func() string {
				if err := z.mod.Start(); err != nil {
					return "start-error"
				}
				return z.settle()
			})
			r.reply("%s", res)
		case "expire":
			if z == nil || !z.started {
				r.resolve("%s", line)
				r.reply("bad-op")
				continue
			}
			r.resolve("%s", line)
			z.events <- zk.Event{Type: zk.EventSession, State: zk.StateExpired}
			time.Sleep(10 * time.Millisecond)
			z.tree.invalidate()
			z.events <- zk.Event{Type: zk.EventSession, State: zk.StateDisconnected}
			z.events <- zk.Event{Type: zk.EventSession, State: zk.StateConnecting}
			z.events <- zk.Event{Type: zk.EventSession, State: zk.StateConnected}
			r.reply("%s", z.settle())
		default:
			r.resolve("%s", line)
			r.reply("bad-op")
		}
	}
}

func genZkReader(g *gen) {
	n := 60 * g.scale
	groups := []string{"prod-a", "prod-b", "test-a", "x", "prod-canary", "ü g"}
	topics := []string{"t0", "t1"}
	for i := 0; i < n; i++ {
		g.newCase()
		allow, deny := "-", "-"
		if g.chance(2, 3) {
			allow = hexName(g.pickS("^prod-", "a$", "^x$", "."))
		}
		if g.chance(1, 2) {
			deny = hexName(g.pickS("canary", "^test", "b$", "^$"))
		}
		g.emit("R cfg %s %s", allow, deny)
		count := map[string]int{}
		zxText := func() string {
			if g.chance(1, 10) {
				return g.pickS("abc", "12x", "", "+5", "-3", "9223372036854775808", " 7")
			}
			return strconv.FormatInt(g.pick(0, 1, 17, 1000000, 9223372036854775807), 10)
		}
		setOp := func() {
			gr, tp := groups[g.intn(len(groups))], topics[g.intn(len(topics))]
			k := gr + "/" + tp
			p := count[k]
			if p > 0 && g.chance(1, 2) {
				p = g.intn(p) // a new commit on an existing partition
			} else {
				count[k]++ // the next partition of the topic
			}
			g.emit("R set %s %s %d %s %s", hexName(gr), hexName(tp), p, hexName(zxText()), hexName(g.pickS("owner-1", "owner-2", "")))
		}
		for k := g.intn(6); k > 0; k-- {
			setOp()
		}
		g.emit("R start")
		steps := 4 + g.intn(10)
		for s := 0; s < steps; s++ {
			if g.chance(1, 9) {
				g.emit("R expire")
			} else {
				setOp()
			}
		}
	}
}
