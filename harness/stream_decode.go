package main

import (
	"encoding/binary"
	"encoding/hex"
	"fmt"
	"math"
	"regexp"
	"runtime"
	"sort"
	"strings"

	"github.com/IBM/sarama"
	"github.com/spf13/viper"
	"go.uber.org/zap"

	"github.com/linkedin/Burrow/core/protocol"
	"github.com/linkedin/Burrow/core/verifhook"
)

// Stream "decode": offsets-topic messages against the real processConsumerOffsetsMessage (C06, C07, C10).
//
//	D cfg <allowRe|-> <denyRe|->
//	D msg <order> <keyhex|-> <valuehex|->        resolved: D msg <order> <key> <value> <acc>
//
// acc is the module's own allow/deny decision for the group name found at key[2:] (oracle bit: regexp).
// Output: reqs=<sorted requests> alloc=ok|balloon  [panic]

func init() { register(&stream{name: "decode", gen: genDecode, run: runDecode}) }

// ---- an independent encoder of the Kafka formats (harness side) ------------------------------------

type wenc struct {
	b      []byte
	fields []wfield // positions of length / count fields, for mutation
}
type wfield struct{ pos, width int }

func (e *wenc) i16(v int16) { e.b = binary.BigEndian.AppendUint16(e.b, uint16(v)) }
func (e *wenc) i32(v int32) { e.b = binary.BigEndian.AppendUint32(e.b, uint32(v)) }
func (e *wenc) i64(v int64) { e.b = binary.BigEndian.AppendUint64(e.b, uint64(v)) }
func (e *wenc) len16(v int16) {
	e.fields = append(e.fields, wfield{len(e.b), 2})
	e.i16(v)
}
func (e *wenc) len32(v int32) {
	e.fields = append(e.fields, wfield{len(e.b), 4})
	e.i32(v)
}

// str writes a nullable string: nil = null (-1)
func (e *wenc) str(s *string) {
	if s == nil {
		e.len16(-1)
		return
	}
	e.len16(int16(len(*s)))
	e.b = append(e.b, *s...)
}
func (e *wenc) bytes(b []byte) {
	e.len32(int32(len(b)))
	e.b = append(e.b, b...)
}
func (e *wenc) sub(o *wenc) {
	// embed another encoding as a bytes field, keeping its field positions
	e.len32(int32(len(o.b)))
	base := len(e.b)
	for _, f := range o.fields {
		e.fields = append(e.fields, wfield{f.pos + base, f.width})
	}
	e.b = append(e.b, o.b...)
}

var decStrings = []string{"", "g", "g1", "x1", "grp one", "grüp", "topic", "t0", "consumer", "/10.0.0.1", "client-1", strings.Repeat("a", 300)}

func genStr(g *gen) *string {
	if g.chance(1, 10) {
		return nil
	}
	s := decStrings[g.intn(len(decStrings))]
	return &s
}

func genI32(g *gen) int32 {
	return int32(g.pick(0, 1, 2, 3, 11, -1, math.MaxInt32, math.MinInt32, 65536))
}
func genI64(g *gen) int64 {
	return g.pick(0, 1, 8372, 1477092910123, -1, math.MaxInt64, math.MinInt64, 1<<40)
}

func genOffsetMsg(g *gen) (*wenc, *wenc) {
	k, v := &wenc{}, &wenc{}
	k.i16(int16(g.pick(0, 1, 1, 1)))
	k.str(genStr(g))
	k.str(genStr(g))
	k.i32(genI32(g))
	ver := int16(g.pick(0, 1, 1, 3, 3, 3))
	if g.chance(1, 30) {
		ver = int16(g.pick(2, 4, -1, 255))
	}
	v.i16(ver)
	v.i64(genI64(g))
	if ver == 3 {
		v.i32(genI32(g))
	}
	v.str(genStr(g))
	v.i64(genI64(g))
	if ver == 1 && g.chance(3, 4) {
		v.i64(genI64(g))
	}
	return k, v
}

func genAssignment(g *gen) *wenc {
	a := &wenc{}
	a.i16(int16(g.pick(0, 0, 0, 1, 2)))
	nt := g.intn(4)
	a.len32(int32(nt))
	names := []string{"t0", "t1", "t2", "", "topic"}
	g.rnd.Shuffle(len(names), func(i, j int) { names[i], names[j] = names[j], names[i] })
	for i := 0; i < nt; i++ {
		nm := names[i]
		if g.chance(1, 12) {
			nm = names[0] // duplicate topic name inside one assignment (map overwrite)
		}
		a.str(&nm)
		np := g.intn(5)
		a.len32(int32(np))
		for j := 0; j < np; j++ {
			a.i32(int32(g.pick(0, 1, 2, 3, 7, -1, math.MaxInt32)))
		}
	}
	switch g.intn(3) {
	case 0:
		a.len32(-1)
	case 1:
		a.bytes([]byte{})
	default:
		a.bytes([]byte{1, 2, 3})
	}
	return a
}

func genMetadataMsg(g *gen) (*wenc, *wenc) {
	k, v := &wenc{}, &wenc{}
	k.i16(2)
	k.str(genStr(g))
	ver := int16(g.intn(4))
	if g.chance(1, 30) {
		ver = int16(g.pick(4, -1, 100))
	}
	v.i16(ver)
	pt := "consumer"
	if g.chance(1, 8) {
		pt = g.pickS("connect", "", "Consumer")
	}
	if g.chance(1, 30) {
		v.str(nil)
	} else {
		v.str(&pt)
	}
	v.i32(genI32(g))
	v.str(genStr(g))
	v.str(genStr(g))
	if ver >= 2 {
		v.i64(genI64(g))
	}
	nm := g.intn(4)
	v.len32(int32(nm))
	for i := 0; i < nm; i++ {
		v.str(genStr(g))
		if ver == 3 {
			v.str(genStr(g))
		}
		v.str(genStr(g))
		v.str(genStr(g))
		if ver >= 1 {
			v.i32(genI32(g))
		}
		v.i32(genI32(g))
		if g.chance(1, 2) {
			v.bytes([]byte{})
		} else {
			v.bytes([]byte{0, 1, 0, 0, 0, 1, 0, 2, 't', '0'})
		}
		if g.chance(1, 6) {
			v.len32(0)
		} else {
			v.sub(genAssignment(g))
		}
	}
	return k, v
}

var extremes16 = []int64{-32768, -2, -1, 0, 1, 32767}
var extremes32 = []int64{math.MinInt32, -2, -1, 0, 1, 2, 1 << 24, math.MaxInt32}

func hexOrDash(b []byte) string {
	if len(b) == 0 {
		return "-"
	}
	return hex.EncodeToString(b)
}

var curCfg [2]string

func emitMsg(g *gen, k, v []byte) {
	g.newCase() // every case is self-contained: configuration + one message
	g.emit("D cfg %s %s", curCfg[0], curCfg[1])
	g.emit("D msg %d %s %s", g.pick(0, 1, 42, 1<<40, math.MaxInt64), hexOrDash(k), hexOrDash(v))
}

func mutateField(b []byte, f wfield, val int64, delta bool) []byte {
	out := append([]byte{}, b...)
	if f.width == 2 {
		cur := int64(int16(binary.BigEndian.Uint16(out[f.pos:])))
		if delta {
			val += cur
		}
		binary.BigEndian.PutUint16(out[f.pos:], uint16(int16(val)))
	} else {
		cur := int64(int32(binary.BigEndian.Uint32(out[f.pos:])))
		if delta {
			val += cur
		}
		binary.BigEndian.PutUint32(out[f.pos:], uint32(int32(val)))
	}
	return out
}

func genDecode(g *gen) {
	cfgs := [][2]string{{"-", "-"}, {"-", "-"}, {hexName("^g"), "-"}, {"-", hexName("1$")}, {hexName("g"), hexName("^x|ü")}}
	n := 60 * g.scale
	for i := 0; i < 12*g.scale; i++ {
		// the configuration phase of the consumer module: which lists it ends up with
		lst := func(pats ...string) string {
			switch g.intn(4) {
			case 0:
				return "-"
			case 1:
				return "E"
			}
			return hexName(g.pickS(pats...))
		}
		g.newCase()
		// group ids may contain blanks, and so may the expressions that name them
		g.emit("D kconf %s %s", lst("^g", "^g[01]", "a$", "^g 3", "g [0-9]$"), lst("1$", "^x", "team", "^g 3$", "m a|g 3"))
	}
	for i := 0; i < n; i++ {
		curCfg = cfgs[g.intn(len(cfgs))]
		var k, v *wenc
		if g.chance(1, 2) {
			k, v = genOffsetMsg(g)
		} else {
			k, v = genMetadataMsg(g)
		}
		// (a) the well-formed message, with and without trailing bytes, and its tombstone
		emitMsg(g, k.b, v.b)
		emitMsg(g, append(append([]byte{}, k.b...), 0xAA), append(append([]byte{}, v.b...), 1, 2, 3))
		emitMsg(g, k.b, nil)
		// (b) every truncation of key and value (bounded for long messages)
		step := 1
		if len(v.b) > 120 {
			step = len(v.b) / 120
		}
		for cut := 0; cut < len(v.b); cut += step {
			emitMsg(g, k.b, v.b[:cut])
		}
		for cut := 0; cut < len(k.b) && cut < 40; cut++ {
			emitMsg(g, k.b[:cut], v.b)
		}
		// (c) every length / count field replaced by extreme values and by true length ± 1
		for _, f := range k.fields {
			for _, x := range extremes16 {
				emitMsg(g, mutateField(k.b, f, x, false), v.b)
			}
			emitMsg(g, mutateField(k.b, f, 1, true), v.b)
			emitMsg(g, mutateField(k.b, f, -1, true), v.b)
		}
		for _, f := range v.fields {
			ex := extremes32
			if f.width == 2 {
				ex = extremes16
			}
			for _, x := range ex {
				emitMsg(g, k.b, mutateField(v.b, f, x, false))
			}
			emitMsg(g, k.b, mutateField(v.b, f, 1, true))
			emitMsg(g, k.b, mutateField(v.b, f, -1, true))
		}
		// (e) an impossible or maximal 16-bit string length that the message actually honours: the bytes the
		//     length claims (read as unsigned) are present, followed by the rest of the original message
		honour := func(b []byte, f wfield, claimed int16) []byte {
			cur := int(int16(binary.BigEndian.Uint16(b[f.pos:])))
			if cur < 0 {
				cur = 0
			}
			out := append([]byte{}, b[:f.pos]...)
			out = binary.BigEndian.AppendUint16(out, uint16(claimed))
			pad := int(uint16(claimed)) - cur
			out = append(out, b[f.pos+2:f.pos+2+min(cur, len(b)-f.pos-2)]...)
			for j := 0; j < pad; j++ {
				out = append(out, 'x')
			}
			return append(out, b[min(len(b), f.pos+2+cur):]...)
		}
		var f16k, f16v []wfield
		for _, f := range k.fields {
			if f.width == 2 {
				f16k = append(f16k, f)
			}
		}
		for _, f := range v.fields {
			if f.width == 2 {
				f16v = append(f16v, f)
			}
		}
		for _, claimed := range []int16{-32768, -2, 32767} {
			if len(f16k) > 0 && (i%4 == 0 || g.tier == "thorough") {
				emitMsg(g, honour(k.b, f16k[g.intn(len(f16k))], claimed), v.b)
			}
			if len(f16v) > 0 && (i%4 == 1 || g.tier == "thorough") {
				emitMsg(g, k.b, honour(v.b, f16v[g.intn(len(f16v))], claimed))
			}
		}
		// (d) random bytes
		for j := 0; j < 10; j++ {
			rk := make([]byte, g.intn(12))
			rv := make([]byte, g.intn(40))
			g.rnd.Read(rk)
			g.rnd.Read(rv)
			if len(rk) >= 2 && g.chance(3, 4) {
				rk[0], rk[1] = 0, byte(g.intn(3))
			}
			if len(rv) >= 2 && g.chance(3, 4) {
				rv[0], rv[1] = 0, byte(g.intn(4))
			}
			emitMsg(g, rk, rv)
		}
	}
}

// ---- real-code driver ------------------------------------------------------------------------------

type decodeRunner struct {
	app             *protocol.ApplicationContext
	client          *verifhook.KafkaClient
	allow, deny     *regexp.Regexp
	allowRe, denyRe *regexp.Regexp
	kconfN          int
}

func showReq(r *protocol.StorageRequest) string {
	switch r.RequestType {
	case protocol.StorageSetConsumerOffset:
		return fmt.Sprintf("O:%s:%s:%d:%d:%d:%d", hexName(r.Group), hexName(r.Topic), r.Partition, r.Offset, r.Timestamp, r.Order)
	case protocol.StorageSetConsumerOwner:
		return fmt.Sprintf("W:%s:%s:%d:%s:%s", hexName(r.Group), hexName(r.Topic), r.Partition, hexName(r.Owner), hexName(r.ClientID))
	case protocol.StorageClearConsumerOwners:
		return fmt.Sprintf("C:%s", hexName(r.Group))
	case protocol.StorageSetDeleteGroup:
		return fmt.Sprintf("X:%s", hexName(r.Group))
	default:
		return fmt.Sprintf("?:%d", int(r.RequestType))
	}
}

const allocA, allocB, allocSlack = 100, 65536, 16384

func (d *decodeRunner) msg(order int64, key, value []byte) string {
	// drain
	for len(d.app.StorageChannel) > 0 {
		<-d.app.StorageChannel
	}
	var before, after runtime.MemStats
	panicked := false
	msg := &sarama.ConsumerMessage{Key: key, Value: value, Offset: order, Topic: "__consumer_offsets", Partition: 0}
	runtime.ReadMemStats(&before)
	func() {
		defer func() {
			if r := recover(); r != nil {
				panicked = true
			}
		}()
		d.client.ProcessMessage(msg)
	}()
	runtime.ReadMemStats(&after)
	var reqs []string
	for len(d.app.StorageChannel) > 0 {
		reqs = append(reqs, showReq(<-d.app.StorageChannel))
	}
	sort.Strings(reqs)
	rs := "-"
	if len(reqs) > 0 {
		rs = strings.Join(reqs, ",")
	}
	alloc := after.TotalAlloc - before.TotalAlloc
	verdict := "ok"
	if alloc > uint64(allocA*(len(key)+len(value))+allocB+allocSlack) {
		verdict = "balloon"
	}
	out := fmt.Sprintf("reqs=%s alloc=%s", rs, verdict)
	if panicked {
		out += " panic"
	}
	return out
}

func runDecode(r *runner) {
	d := &decodeRunner{app: &protocol.ApplicationContext{StorageChannel: make(chan *protocol.StorageRequest, 1<<20)}}
	d.client = verifhook.NewKafkaClient(d.app, "verifconsumer", "c0", "", "")
	for {
		line, ok := r.next()
		if !ok {
			return
		}
		if strings.HasPrefix(line, "#") {
			r.resolve("%s", line)
			r.reply("%s", line)
			continue
		}
		f := strings.Split(line, " ")
		switch f[1] {
		case "cfg":
			allow, deny := unhexName(f[2]), unhexName(f[3])
			d.client = verifhook.NewKafkaClient(d.app, "verifconsumer", "c0", allow, deny)
			d.allowRe, d.denyRe = nil, nil
			if allow != "" {
				d.allowRe = regexp.MustCompile(allow)
			}
			if deny != "" {
				d.denyRe = regexp.MustCompile(deny)
			}
			r.resolve("D cfg")
			r.reply("ok")
		case "kconf":
			// D kconf <allowRe> <denyRe>  ("-" = key absent, "E" = present with the empty string): the REAL Configure of the
			// Kafka consumer module on such a section; prints its verdict on a few group names.  resolved: + match bits
			d.kconfN++
			name := fmt.Sprintf("kconf%d", d.kconfN)
			root := "consumer." + name
			viper.Set("cluster.kc.class-name", "kafka")
			viper.Set(root+".class-name", "kafka")
			viper.Set(root+".cluster", "kc")
			viper.Set(root+".servers", []string{"broker1:9092"})
			bits := [2]string{"-", "-"}
			for i, key := range []string{"group-allowlist", "group-denylist"} {
				switch f[2+i] {
				case "-":
				case "E":
					viper.Set(root+"."+key, "")
				default:
					pat := unhexName(f[2+i])
					viper.Set(root+"."+key, pat)
					re := regexp.MustCompile(pat)
					b := ""
					for _, smp := range sconfSamples {
						b += bit(re.MatchString(smp))
					}
					bits[i] = b
				}
			}
			r.resolve("%s %s %s", line, bits[0], bits[1])
			r.reply("%s", guard(func() string {
				c := verifhook.ConfigureKafkaClient(&protocol.ApplicationContext{Logger: zap.NewNop()}, name, root)
				acc := ""
				for _, smp := range sconfSamples {
					acc += bit(c.Accept(smp))
				}
				return "kconf acc=" + acc
			}))
		case "msg":
			var key, value []byte
			if f[3] != "-" {
				key, _ = hex.DecodeString(f[3])
			}
			if f[4] != "-" {
				value, _ = hex.DecodeString(f[4])
			}
			// oracle bit: the module's allow/deny decision for the group name a reader finds at key[2:]
			acc := 1
			if len(key) >= 4 {
				l := int(int16(binary.BigEndian.Uint16(key[2:4])))
				group := ""
				if l >= 0 && 4+l <= len(key) {
					group = string(key[4 : 4+l])
				}
				// decided here from the configured patterns (not by asking the module): tracked iff the allowlist, if set,
				// matches and the denylist, if set, does not
				if (d.allowRe != nil && !d.allowRe.MatchString(group)) || (d.denyRe != nil && d.denyRe.MatchString(group)) {
					acc = 0
				}
			}
			r.resolve("D msg %s %s %s %d", f[2], f[3], f[4], acc)
			r.reply("%s", d.msg(atoi(f[2]), key, value))
		default:
			r.resolve("%s", line)
			r.reply("bad-op")
		}
	}
}
