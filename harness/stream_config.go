package main

import (
	"crypto/ecdsa"
	"crypto/elliptic"
	"crypto/rand"
	"crypto/tls"
	"crypto/x509"
	"crypto/x509/pkix"
	"encoding/json"
	"encoding/pem"
	"fmt"
	"math/big"
	"net"
	"os"
	"path/filepath"
	"regexp"
	"strconv"
	"strings"
	"text/template"
	"time"

	"github.com/IBM/sarama"
	"github.com/spf13/viper"
	"go.uber.org/zap"
	"go.uber.org/zap/zapcore"
	"go.uber.org/zap/zaptest/observer"

	"github.com/linkedin/Burrow/core"
	"github.com/linkedin/Burrow/core/protocol"
	"github.com/linkedin/Burrow/core/verifhook"
)

// Stream "config": the start-up configuration phase (C19).
//
//	C start <description json, hex>
//	  resolved: C start hn= zk= st= ev= hs= nt= cl= co=     (the facts the checks look at + oracle bits)
//
// The description is a structured configuration (modules with the keys the checks read; file-valued keys
// are placeholders @TMPL_OK@ @TMPL_BAD@ @MISSING@ @CERT@ @KEY@ @JUNK@).  The runner renders it to TOML, loads
// it into viper, runs the real configuration phase (newCoordinators + configureCoordinators, hook) and
// then the real core.Start (for invalid configurations, and for valid ones that need no network), and
// prints: valid=<0|1> site=<message class|-> kind=<string|other|-> start=<ret0|ret1|crash|skipped>.
// Oracle bits (pattern compiles, template parses, host list valid, ZK path valid, Kafka version known,
// file readable, key pair loads) are computed with the same library calls Burrow uses.

func init() { register(&stream{name: "config", gen: genConfig, run: runConfig}) }

type cTLS struct {
	Ca, Cert, Key string
}
type cStorage struct {
	Name, Class         string
	QueueDepth          *int64
	Legacy, Allow, Deny string // Legacy: "" | "group-whitelist" | "group-blacklist"
}
type cEvaluator struct {
	Name, Class string
	Expire      *int64
}
type cListener struct {
	Name, Address string
	TLS           *cTLS
}
type cNotifier struct {
	Name, Class, Legacy, Allow, Deny string
	TmplOpen, TmplClose              string
	SendClose                        bool
	URLOpen, URLClose                string
	ExtraCa                          string
	NoVerify                         bool
	Server                           string
	Port                             int64
	From, To, Auth                   string
}
type cProfile struct {
	Name    string
	Version *string
	TLS     *cTLS
}
type cCluster struct {
	Name, Class, Profile string
	Servers              []string
}
type cConsumer struct {
	Name, Class, Cluster, Profile string
	Servers                       []string
	ZkPath                        *string
	Legacy, Allow, Deny           string
}
type cDesc struct {
	NotifierSection bool
	ZkServers       []string
	ZkRoot          *string
	Storage         []cStorage
	Evaluator       []cEvaluator
	Listeners       []cListener
	Notifiers       []cNotifier
	Profiles        []cProfile
	Clusters        []cCluster
	Consumers       []cConsumer
}

// ---- files ------------------------------------------------------------------------------------

type cfgFiles struct{ dir string }

func newCfgFiles() *cfgFiles {
	dir, err := os.MkdirTemp("", "burrowverif-config-")
	if err != nil {
		panic(err)
	}
	_ = os.WriteFile(filepath.Join(dir, "ok.tmpl"), []byte("{{.Cluster}} {{.Group}}"), 0o644)
	_ = os.WriteFile(filepath.Join(dir, "bad.tmpl"), []byte("{{.Cluster"), 0o644)
	_ = os.WriteFile(filepath.Join(dir, "junk.pem"), []byte("not a pem file"), 0o644)
	key, _ := ecdsa.GenerateKey(elliptic.P256(), rand.Reader)
	tpl := &x509.Certificate{SerialNumber: big.NewInt(1), Subject: pkix.Name{CommonName: "burrowverif"}, NotBefore: time.Now().Add(-time.Hour), NotAfter: time.Now().Add(time.Hour)}
	der, _ := x509.CreateCertificate(rand.Reader, tpl, tpl, &key.PublicKey, key)
	_ = os.WriteFile(filepath.Join(dir, "cert.pem"), pem.EncodeToMemory(&pem.Block{Type: "CERTIFICATE", Bytes: der}), 0o644)
	kb, _ := x509.MarshalECPrivateKey(key)
	_ = os.WriteFile(filepath.Join(dir, "key.pem"), pem.EncodeToMemory(&pem.Block{Type: "EC PRIVATE KEY", Bytes: kb}), 0o644)
	return &cfgFiles{dir}
}

func (f *cfgFiles) path(p string) string {
	switch p {
	case "@TMPL_OK@":
		return filepath.Join(f.dir, "ok.tmpl")
	case "@TMPL_BAD@":
		return filepath.Join(f.dir, "bad.tmpl")
	case "@MISSING@":
		return filepath.Join(f.dir, "does-not-exist")
	case "@CERT@":
		return filepath.Join(f.dir, "cert.pem")
	case "@KEY@":
		return filepath.Join(f.dir, "key.pem")
	case "@JUNK@":
		return filepath.Join(f.dir, "junk.pem")
	}
	return p
}

// ---- TOML rendering -----------------------------------------------------------------------------

func (d *cDesc) toml(f *cfgFiles) string {
	t := &tomlDoc{}
	legacy := func(l string) {
		if l != "" {
			t.str(l, "old")
		}
	}
	opt := func(k, v string) {
		if v != "" {
			t.str(k, v)
		}
	}
	tlsSec := func(name string, x *cTLS) {
		t.section("tls", name)
		opt("cafile", f.path(x.Ca))
		opt("certfile", f.path(x.Cert))
		opt("keyfile", f.path(x.Key))
	}
	if d.ZkServers != nil || d.ZkRoot != nil {
		t.section("zookeeper")
		if d.ZkServers != nil {
			t.list("servers", d.ZkServers)
		}
		if d.ZkRoot != nil {
			t.str("root-path", *d.ZkRoot)
		}
	}
	for _, m := range d.Storage {
		t.section("storage", m.Name)
		opt("class-name", m.Class)
		if m.QueueDepth != nil {
			t.num("queue-depth", *m.QueueDepth)
		}
		legacy(m.Legacy)
		opt("group-allowlist", m.Allow)
		opt("group-denylist", m.Deny)
	}
	for _, m := range d.Evaluator {
		t.section("evaluator", m.Name)
		opt("class-name", m.Class)
		if m.Expire != nil {
			t.num("expire-cache", *m.Expire)
		}
	}
	for _, m := range d.Listeners {
		t.section("httpserver", m.Name)
		opt("address", m.Address)
		if m.TLS != nil {
			t.str("tls", "tls-"+m.Name)
		}
	}
	for _, m := range d.Listeners {
		if m.TLS != nil {
			tlsSec("tls-"+m.Name, m.TLS)
		}
	}
	if d.NotifierSection && len(d.Notifiers) == 0 {
		t.section("notifier")
	}
	for _, m := range d.Notifiers {
		t.section("notifier", m.Name)
		opt("class-name", m.Class)
		legacy(m.Legacy)
		opt("group-allowlist", m.Allow)
		opt("group-denylist", m.Deny)
		opt("template-open", f.path(m.TmplOpen))
		opt("template-close", f.path(m.TmplClose))
		t.boolean("send-close", m.SendClose)
		opt("url-open", m.URLOpen)
		opt("url-close", m.URLClose)
		opt("extra-ca", f.path(m.ExtraCa))
		t.boolean("noverify", m.NoVerify)
		opt("server", m.Server)
		if m.Port != 0 {
			t.num("port", m.Port)
		}
		opt("from", m.From)
		opt("to", m.To)
		opt("auth-type", m.Auth)
	}
	for _, p := range d.Profiles {
		t.section("client-profile", p.Name)
		t.str("client-id", "burrow-"+p.Name)
		if p.Version != nil {
			t.str("kafka-version", *p.Version)
		}
		if p.TLS != nil {
			t.str("tls", "tls-"+p.Name)
		}
	}
	for _, p := range d.Profiles {
		if p.TLS != nil {
			tlsSec("tls-"+p.Name, p.TLS)
		}
	}
	for _, m := range d.Clusters {
		t.section("cluster", m.Name)
		opt("class-name", m.Class)
		opt("client-profile", m.Profile)
		if m.Servers != nil {
			t.list("servers", m.Servers)
		}
	}
	for _, m := range d.Consumers {
		t.section("consumer", m.Name)
		opt("class-name", m.Class)
		opt("cluster", m.Cluster)
		opt("client-profile", m.Profile)
		if m.Servers != nil {
			t.list("servers", m.Servers)
		}
		if m.ZkPath != nil {
			t.str("zookeeper-path", *m.ZkPath)
		}
		legacy(m.Legacy)
		opt("group-allowlist", m.Allow)
		opt("group-denylist", m.Deny)
	}
	return t.b.String()
}

// ---- facts (with oracle bits) -------------------------------------------------------------------

func bit(b bool) string {
	if b {
		return "1"
	}
	return "0"
}

func tlsLoadPair(cert, key string) (tls.Certificate, error) { return tls.LoadX509KeyPair(cert, key) }

func reOK(p string) bool {
	if p == "" {
		return true
	}
	_, err := regexp.Compile(p)
	return err == nil
}

func readable(path string) bool {
	_, err := os.ReadFile(path)
	return err == nil
}

func tmplOK(f *cfgFiles, p string) bool {
	_, err := template.New("notifier").Funcs(verifhook.HelperFunctionMap()).ParseFiles(f.path(p))
	return err == nil
}

func (f *cfgFiles) tlsFacts(x *cTLS) string {
	if x == nil {
		return "-"
	}
	pair := false
	if x.Cert != "" && x.Key != "" {
		_, err := tlsLoadPair(f.path(x.Cert), f.path(x.Key))
		pair = err == nil
	}
	return strings.Join([]string{bit(x.Ca != ""), bit(x.Ca != "" && readable(f.path(x.Ca))), bit(x.Cert != "" && x.Key != ""), bit(pair)}, ",")
}

func (d *cDesc) profileFacts(f *cfgFiles, name string) string {
	var p *cProfile
	for i := range d.Profiles {
		if strings.EqualFold(d.Profiles[i].Name, name) {
			p = &d.Profiles[i]
		}
	}
	version := "2.8.0"
	var x *cTLS
	if p != nil {
		if p.Version != nil {
			version = *p.Version
		}
		x = p.TLS
	}
	return strings.Join([]string{bit(name != ""), bit(p != nil), bit(saramaParses(version)) + "/" + hexName(version), strings.ReplaceAll(f.tlsFacts(x), ",", "/")}, "~")
}

// addrFacts: what the STANDARD LIBRARY says about one host:port string (not Burrow's helpers)
func addrFacts(a string) string {
	host, port, err := net.SplitHostPort(a)
	if err != nil {
		return "0,-,0,0,0"
	}
	_, perr := strconv.Atoi(port)
	allNum := true
	for _, part := range strings.Split(host, ".") {
		if _, e := strconv.Atoi(part); e != nil {
			allNum = false
			break
		}
	}
	return strings.Join([]string{"1", hexName(host), bit(perr == nil), bit(net.ParseIP(host) != nil), bit(allNum)}, ",")
}

func addrListFacts(as []string) string {
	if len(as) == 0 {
		return "-"
	}
	out := make([]string, len(as))
	for i, a := range as {
		out[i] = addrFacts(a)
	}
	return strings.Join(out, "+")
}

func saramaParses(v string) bool {
	_, err := sarama.ParseKafkaVersion(v)
	return err == nil
}

func (d *cDesc) facts(f *cfgFiles) string {
	join := func(xs []string) string {
		if len(xs) == 0 {
			return "-"
		}
		return strings.Join(xs, ";")
	}
	root := "/burrow"
	if d.ZkRoot != nil {
		root = *d.ZkRoot
	}
	zk := fmt.Sprintf("%s:%s", addrListFacts(d.ZkServers), hexName(root))
	var st, ev, hs, nt, cl, co []string
	for _, m := range d.Storage {
		q := int64(1)
		if m.QueueDepth != nil {
			q = *m.QueueDepth
		}
		st = append(st, strings.Join([]string{hexName(m.Class), bit(q >= 0 && q < 1<<40), bit(m.Legacy != ""), bit(reOK(m.Allow)), bit(reOK(m.Deny))}, ":"))
	}
	for _, m := range d.Evaluator {
		e := int64(10)
		if m.Expire != nil {
			e = *m.Expire
		}
		ev = append(ev, strings.Join([]string{hexName(m.Class), bit(e >= 0 && e < 9223372036)}, ":"))
	}
	for _, m := range d.Listeners {
		hs = append(hs, addrFacts(m.Address)+":"+f.tlsFacts(m.TLS))
	}
	for _, m := range d.Notifiers {
		extraOK := !(m.ExtraCa != "" && !m.NoVerify && !readable(f.path(m.ExtraCa)))
		auth := strings.ToLower(m.Auth)
		nt = append(nt, strings.Join([]string{bit(m.Legacy != ""), bit(reOK(m.Allow)), bit(reOK(m.Deny)), bit(tmplOK(f, m.TmplOpen)), bit(m.SendClose), bit(tmplOK(f, m.TmplClose)),
			hexName(m.Class), bit(m.URLOpen != ""), bit(m.URLClose != ""), bit(extraOK),
			addrFacts(fmt.Sprintf("%s:%v", m.Server, m.Port)), bit(m.From != ""), bit(m.To != ""), bit(auth == "" || auth == "plain" || auth == "crammd5")}, ":"))
	}
	for _, m := range d.Clusters {
		cl = append(cl, strings.Join([]string{hexName(m.Class), d.profileFacts(f, m.Profile), addrListFacts(m.Servers)}, ":"))
	}
	for _, m := range d.Consumers {
		known := false
		for _, c := range d.Clusters {
			if m.Cluster != "" && strings.EqualFold(c.Name, m.Cluster) {
				known = true
			}
		}
		zp := "/consumers"
		if m.ZkPath != nil {
			zp = *m.ZkPath + "/consumers"
		}
		co = append(co, strings.Join([]string{bit(known), hexName(m.Class), d.profileFacts(f, m.Profile), addrListFacts(m.Servers),
			hexName(zp), bit(m.Legacy != ""), bit(reOK(m.Allow)), bit(reOK(m.Deny))}, ":"))
	}
	hn := d.NotifierSection || len(d.Notifiers) > 0
	local := !hn && len(d.Clusters) == 0 && len(d.Consumers) == 0
	for _, l := range d.Listeners {
		if l.Address != ":0" && l.Address != "127.0.0.1:0" || l.TLS != nil {
			local = false
		}
	}
	return fmt.Sprintf("hn=%s zk=%s st=%s ev=%s hs=%s nt=%s cl=%s co=%s local=%s", bit(hn), zk, join(st), join(ev), join(hs), join(nt), join(cl), join(co), bit(local))
}

// ---- message classes ----------------------------------------------------------------------------

var cfgMessages = []struct{ prefix, class string }{
	{"No Zookeeper servers specified for consumer", "KZ1"},
	{"No Zookeeper servers specified", "Z1"},
	{"Failed to validate Zookeeper servers", "Z2"},
	{"Zookeeper root path is not valid", "Z3"},
	{"Only one storage module must be configured", "S1"},
	{"Unknown storage className provided", "S2"},
	{"makechan: size out of range", "S3"},
	{"Please change configurations to allowlist and denylist", "LEGACY"},
	{"Failed to compile group allowlist", "ALLOW"},
	{"Failed to compile group denylist", "DENY"},
	{"Only one evaluator module must be configured", "E1"},
	{"Unknown evaluator className provided", "E2"},
	{"Failed to start cache", "E3"},
	{"invalid HTTP server listener address", "H1"},
	{"cannot read TLS CA file", "TLSCA"},
	{"TLS HTTP server specified with missing certificate or key", "H3"},
	{"cannot read TLS certificate or key file", "TLSPAIR"},
	{"Failed to compile TemplateOpen", "N4"},
	{"Failed to compile TemplateClose", "N5"},
	{"Unknown notifier className provided", "N6"},
	{"no url-open specified", "NH1"},
	{"no url-close specified", "NH2"},
	{"Failed to append", "EXTRACA"},
	{"bad server or port", "NE1"},
	{"missing \tfrom address", "NE2"},
	{"missing to address", "NE3"},
	{"unknown auth type", "NE4"},
	{"Unknown cluster className provided", "C1"},
	{"unknown client-profile", "P1"},
	{"Unknown Kafka Version", "P2"},
	{"No Kafka brokers specified for cluster", "C3"},
	{"Cluster '", "C4"},
	{"No Kafka brokers specified for consumer", "KC3"},
	{"Unknown consumer className provided", "K2"},
}

func classifyCfgMessage(msg string) string {
	for _, m := range cfgMessages {
		if strings.HasPrefix(msg, m.prefix) {
			return m.class
		}
	}
	switch {
	case strings.HasPrefix(msg, "Consumer '") && strings.Contains(msg, "references an unknown cluster"):
		return "K1"
	case strings.HasPrefix(msg, "Consumer '") && strings.Contains(msg, "improperly formatted servers"):
		return "CONSSERVERS"
	case strings.HasPrefix(msg, "Consumer '") && strings.Contains(msg, "bad zookeeper path"):
		return "KZ3"
	}
	return "?" + hexName(msg)
}

// ---- run ------------------------------------------------------------------------------------------

func runConfig(r *runner) {
	files := newCfgFiles()
	defer os.RemoveAll(files.dir)
	for {
		line, ok := r.next()
		if !ok {
			return
		}
		if strings.HasPrefix(line, "#") {
			r.reply("%s", line)
			r.resolve("%s", line)
			continue
		}
		f := strings.Split(line, " ")
		if len(f) != 3 || f[1] != "start" {
			r.resolve("%s", line)
			r.reply("bad-op")
			continue
		}
		var d cDesc
		if err := json.Unmarshal([]byte(unhexName(f[2])), &d); err != nil {
			r.resolve("%s", line)
			r.reply("bad-op")
			continue
		}
		r.resolve("C start %s", d.facts(files))
		viper.Reset()
		viper.SetConfigType("toml")
		if err := viper.ReadConfig(strings.NewReader(d.toml(files))); err != nil {
			r.reply("toml-error")
			continue
		}
		obsCore, logs := observer.New(zapcore.ErrorLevel)
		lvl := zap.NewAtomicLevelAt(zap.ErrorLevel)
		app := &protocol.ApplicationContext{Logger: zap.New(obsCore), LogLevel: &lvl}
		valid, escaped := core.VerifConfigure(app)
		site, kind := "-", "-"
		switch {
		case escaped != nil:
			if s, isString := escaped.(string); isString {
				site, kind = classifyCfgMessage(s), "string"
			} else {
				site, kind = classifyCfgMessage(fmt.Sprint(escaped)), "other"
				if e, isErr := escaped.(error); isErr {
					site = classifyCfgMessage(strings.TrimPrefix(e.Error(), "runtime error: "))
				}
			}
		case !valid:
			// the handler swallowed the panic and logged it
			msg := ""
			for _, e := range logs.All() {
				msg = e.Message
				for _, fld := range e.Context {
					if fld.Key == "reason" || fld.Key == "error" {
						if fld.String != "" {
							msg = fld.String
						} else if fld.Interface != nil {
							msg = fmt.Sprint(fld.Interface)
						}
					}
				}
			}
			site, kind = classifyCfgMessage(strings.TrimPrefix(msg, "runtime error: ")), "logged"
		}
		// the real Start: for refused configurations always; for accepted ones only when nothing needs the network
		start := "skipped"
		local := !d.NotifierSection && len(d.Notifiers) == 0 && len(d.Clusters) == 0 && len(d.Consumers) == 0
		for _, l := range d.Listeners {
			if l.Address != ":0" && l.Address != "127.0.0.1:0" || l.TLS != nil {
				local = false
			}
		}
		if !valid || local {
			viper.Reset()
			viper.SetConfigType("toml")
			_ = viper.ReadConfig(strings.NewReader(d.toml(files)))
			lvl2 := zap.NewAtomicLevelAt(zap.ErrorLevel)
			app2 := &protocol.ApplicationContext{Logger: zap.NewNop(), LogLevel: &lvl2}
			exit := make(chan os.Signal)
			close(exit)
			start = func() (res string) {
				defer func() {
					if rec := recover(); rec != nil {
						res = "crash"
					}
				}()
				return "ret" + strconv.Itoa(core.Start(app2, exit))
			}()
		}
		// an embedding application that calls Start again on the context of an earlier valid run (ConfigurationValid is
		// still set from it): a refused configuration must be refused all the same, before any subsystem starts
		restart := "-"
		if !valid {
			viper.Reset()
			viper.SetConfigType("toml")
			_ = viper.ReadConfig(strings.NewReader(d.toml(files)))
			lvl3 := zap.NewAtomicLevelAt(zap.ErrorLevel)
			app3 := &protocol.ApplicationContext{Logger: zap.NewNop(), LogLevel: &lvl3, ConfigurationValid: true}
			exit := make(chan os.Signal)
			close(exit)
			restart = func() (res string) {
				defer func() {
					if rec := recover(); rec != nil {
						res = "crash"
					}
				}()
				return "ret" + strconv.Itoa(core.Start(app3, exit))
			}()
		}
		r.reply("valid=%s site=%s start=%s restart=%s ~kind=%s", bit(valid && escaped == nil), site, start, restart, kind)
	}
}

// ---- generation -----------------------------------------------------------------------------------

func strp(s string) *string { return &s }
func intp(i int64) *int64   { return &i }

var goodHosts = []string{"kafka1:9092", "10.0.0.1:9092", "[::1]:9092", "a_b:1", "host.example.com:2181"}
var badHosts = []string{"kafka1", "host:", "256.1.1.1:9092", "-a:1", "a b:9092", "::1:9092", "host:80:90"}
var goodRe = []string{"", "^prod-.*", "a|b", ".*"}
var badRe = []string{"(", "[a-", "a{2,1}", "*x"}

func genBaseConfig(g *gen) *cDesc {
	d := &cDesc{}
	withNotifiers := g.chance(2, 3)
	if withNotifiers || g.chance(1, 3) {
		d.ZkServers = []string{"zk1:2181", goodHosts[g.intn(len(goodHosts))]}
		if g.chance(1, 2) {
			d.ZkRoot = strp(g.pickS("/burrow", "/", "/a/b.c", "/_x"))
		}
	}
	if g.chance(2, 3) {
		d.Storage = []cStorage{{Name: "mystore", Class: "inmemory", Allow: goodRe[g.intn(len(goodRe))], Deny: goodRe[g.intn(len(goodRe))]}}
		if g.chance(1, 3) {
			d.Storage[0].QueueDepth = intp(g.pick(0, 1, 50))
		}
	}
	if g.chance(2, 3) {
		d.Evaluator = []cEvaluator{{Name: "myeval", Class: "caching"}}
		if g.chance(1, 3) {
			d.Evaluator[0].Expire = intp(g.pick(0, 1, 30))
		}
	}
	switch g.intn(4) {
	case 0:
	case 1:
		d.Listeners = []cListener{{Name: "default", Address: ":0"}}
	case 2:
		d.Listeners = []cListener{{Name: "a", Address: "127.0.0.1:0"}, {Name: "b", Address: g.pickS(":8000", "0.0.0.0:8443", "localhost:81")}}
	default:
		d.Listeners = []cListener{{Name: "secure", Address: ":8443", TLS: &cTLS{Ca: g.pickS("", "@CERT@", "@JUNK@"), Cert: "@CERT@", Key: "@KEY@"}}}
	}
	nprof := g.intn(3)
	for i := 0; i < nprof; i++ {
		// viper folds the case of keys: a profile may be named and referred to in any case
		p := cProfile{Name: g.pickS("prof", "prof", "Prof", "PROD-East-") + strconv.Itoa(i)}
		if g.chance(1, 2) {
			p.Version = strp(g.pickS("2.0.0", "0.10.2", "0.11.0.2", "3.6.1", ""))
		}
		if g.chance(1, 3) {
			p.TLS = &cTLS{Ca: g.pickS("", "@CERT@"), Cert: g.pickS("", "@CERT@"), Key: g.pickS("", "@KEY@")}
			if p.TLS.Ca != "" && (p.TLS.Cert == "") != (p.TLS.Key == "") {
				p.TLS.Cert, p.TLS.Key = "@CERT@", "@KEY@"
			}
		}
		d.Profiles = append(d.Profiles, p)
	}
	pickProf := func() string {
		if nprof == 0 || g.chance(1, 3) {
			return ""
		}
		nm := d.Profiles[g.intn(nprof)].Name
		switch g.intn(6) {
		case 0:
			return strings.ToUpper(nm)
		case 1:
			return strings.ToLower(nm)
		}
		return nm
	}
	ncl := g.intn(3)
	for i := 0; i < ncl; i++ {
		d.Clusters = append(d.Clusters, cCluster{Name: "cl" + strconv.Itoa(i), Class: "kafka", Profile: pickProf(), Servers: []string{goodHosts[g.intn(len(goodHosts))], "k2:9092"}})
	}
	if ncl > 0 {
		nco := g.intn(3)
		for i := 0; i < nco; i++ {
			c := cConsumer{Name: "co" + strconv.Itoa(i), Cluster: d.Clusters[g.intn(ncl)].Name, Allow: goodRe[g.intn(len(goodRe))], Deny: goodRe[g.intn(len(goodRe))]}
			if g.chance(1, 2) {
				c.Class, c.Profile, c.Servers = "kafka", pickProf(), []string{goodHosts[g.intn(len(goodHosts))]}
			} else {
				c.Class, c.Servers = "kafka_zk", []string{"zk1:2181"}
				if g.chance(1, 2) {
					c.ZkPath = strp(g.pickS("/kafka", "", "/a/b"))
				}
			}
			d.Consumers = append(d.Consumers, c)
		}
	}
	if withNotifiers {
		nn := g.intn(3)
		d.NotifierSection = true
		for i := 0; i < nn; i++ {
			n := cNotifier{Name: "not" + strconv.Itoa(i), Class: g.pickS("http", "email", "null"), Allow: goodRe[g.intn(len(goodRe))], Deny: goodRe[g.intn(len(goodRe))],
				TmplOpen: "@TMPL_OK@", SendClose: g.chance(1, 2)}
			if n.SendClose {
				n.TmplClose = "@TMPL_OK@"
			}
			switch n.Class {
			case "http":
				n.URLOpen = "https://example/open"
				if n.SendClose {
					n.URLClose = "https://example/close"
				}
				if g.chance(1, 4) {
					n.ExtraCa, n.NoVerify = g.pickS("@CERT@", "@JUNK@", "@MISSING@"), false
					if n.ExtraCa == "@MISSING@" {
						n.NoVerify = true
					}
				}
			case "email":
				n.Server, n.Port, n.From, n.To, n.Auth = "smtp.example.com", g.pick(0, 25, 587, -1), "burrow@example.com", "ops@example.com", g.pickS("", "plain", "CramMD5", "PLAIN")
			}
			d.Notifiers = append(d.Notifiers, n)
		}
	}
	return d
}

// the catalogue of edits: each returns false when it does not apply to this configuration
type cfgEdit struct {
	name  string
	coord string // the coordinator it concerns (at most one invalidating edit per coordinator per case)
	apply func(g *gen, d *cDesc) bool
}

// addresses and paths whose validity the generator does not know: model and implementation must agree
var addrZoo = []string{"a_b:1", "a_b.c:1", "a_b_c:1", "xn--a.b:1", "1a.2b:1", "a.b.:1", "a..b:1", "-a:1", "a-:1", "h:+1", "h:-1", "h:99999999", "h:0x10", "h:1_0", "h: 1",
	"h:", ":1", ":", ":+1", ":http", "[::1]:1", "[h]:1", "[fe80::1%eth0]:1", "::1:1", "1.2.3.4:1", "1.2.3:1", "123:1", "256.1.1.1:1", "01.2.3.4:1", "+1.2.3.4:1", "1.2.3.4.5:1",
	strings.Repeat("a", 63) + ":1", strings.Repeat("a", 64) + ":1", "h:80:90", "h:1\n", "[::1:1", "::1]:1", "h:99999999999999999999", "a.b-c.d0:1", "A.B:1", "ü:1", "[1.2.3.4]:1", "[]:1"}
var zkPathZoo = []string{"/", "/a", "/a/b", "/a.b", "/-a", "/_a", "", "a", "/a/", "//a", "//", "/a//b", "/.a", "/a b", "/a\n", "/a/.b", "/a/b.", "/ü"}

var cfgEdits = []cfgEdit{
	{"addr-zoo", "zoo", func(g *gen, d *cDesc) bool {
		a := addrZoo[g.intn(len(addrZoo))]
		switch g.intn(4) {
		case 0:
			d.Listeners = []cListener{{Name: "a", Address: a}}
		case 1:
			d.NotifierSection = true
			d.ZkServers = []string{"zk1:2181", a}
		case 2:
			d.Clusters = append(d.Clusters, cCluster{Name: "zoocl", Class: "kafka", Servers: []string{a}})
		default:
			d.NotifierSection = true
			if len(d.ZkServers) == 0 {
				d.ZkServers = []string{"zk1:2181"}
			}
			d.ZkRoot = strp(zkPathZoo[g.intn(len(zkPathZoo))])
		}
		return true
	}},
	{"zk-no-servers", "zk", func(g *gen, d *cDesc) bool { d.NotifierSection = true; d.ZkServers = nil; return true }},
	{"zk-empty-servers", "zk", func(g *gen, d *cDesc) bool { d.NotifierSection = true; d.ZkServers = []string{}; return true }},
	{"zk-bad-server", "zk", func(g *gen, d *cDesc) bool {
		d.NotifierSection = true
		d.ZkServers = []string{"zk1:2181", badHosts[g.intn(len(badHosts))]}
		return true
	}},
	{"zk-bad-root", "zk", func(g *gen, d *cDesc) bool {
		d.NotifierSection = true
		if d.ZkServers == nil {
			d.ZkServers = []string{"zk1:2181"}
		}
		d.ZkRoot = strp(g.pickS("", "burrow", "/a/", "//a", "/.a", "/a b"))
		return true
	}},
	{"zk-missing-but-no-notifier", "zk", func(g *gen, d *cDesc) bool { // validity-preserving: zookeeper is only needed with notifiers
		if d.NotifierSection || len(d.Notifiers) > 0 {
			return false
		}
		d.ZkServers = nil
		return true
	}},
	{"two-storage", "storage", func(g *gen, d *cDesc) bool {
		d.Storage = []cStorage{{Name: "a", Class: "inmemory"}, {Name: "b", Class: "inmemory"}}
		return true
	}},
	{"storage-class", "storage", func(g *gen, d *cDesc) bool {
		d.Storage = []cStorage{{Name: "a", Class: g.pickS("InMemory", "redis", "")}}
		return true
	}},
	{"storage-queue-depth", "storage", func(g *gen, d *cDesc) bool {
		d.Storage = []cStorage{{Name: "a", Class: "inmemory", QueueDepth: intp(g.pick(-1, -100))}}
		return true
	}},
	{"storage-legacy", "storage", func(g *gen, d *cDesc) bool {
		d.Storage = []cStorage{{Name: "a", Class: "inmemory", Legacy: g.pickS("group-whitelist", "group-blacklist")}}
		return true
	}},
	{"storage-bad-allow", "storage", func(g *gen, d *cDesc) bool {
		d.Storage = []cStorage{{Name: "a", Class: "inmemory", Allow: badRe[g.intn(len(badRe))]}}
		return true
	}},
	{"storage-bad-deny", "storage", func(g *gen, d *cDesc) bool {
		d.Storage = []cStorage{{Name: "a", Class: "inmemory", Deny: badRe[g.intn(len(badRe))]}}
		return true
	}},
	{"two-evaluator", "evaluator", func(g *gen, d *cDesc) bool {
		d.Evaluator = []cEvaluator{{Name: "a", Class: "caching"}, {Name: "b", Class: "caching"}}
		return true
	}},
	{"evaluator-class", "evaluator", func(g *gen, d *cDesc) bool {
		d.Evaluator = []cEvaluator{{Name: "a", Class: g.pickS("Caching", "simple", "")}}
		return true
	}},
	{"evaluator-expire", "evaluator", func(g *gen, d *cDesc) bool {
		d.Evaluator = []cEvaluator{{Name: "a", Class: "caching", Expire: intp(g.pick(-1, 9223372037))}}
		return true
	}},
	{"listener-address", "httpserver", func(g *gen, d *cDesc) bool {
		d.Listeners = []cListener{{Name: "a", Address: g.pickS("", "8000", "host", ":", "1.2.3:80", ":http")}}
		return true
	}},
	{"listener-blank-host", "httpserver", func(g *gen, d *cDesc) bool { // validity-preserving
		d.Listeners = []cListener{{Name: "a", Address: g.pickS(":8000", ":+1", ":-1")}}
		return true
	}},
	{"listener-tls-ca-missing", "httpserver", func(g *gen, d *cDesc) bool {
		d.Listeners = []cListener{{Name: "a", Address: ":8443", TLS: &cTLS{Ca: "@MISSING@", Cert: "@CERT@", Key: "@KEY@"}}}
		return true
	}},
	{"listener-tls-no-cert", "httpserver", func(g *gen, d *cDesc) bool {
		d.Listeners = []cListener{{Name: "a", Address: ":8443", TLS: &cTLS{Cert: g.pickS("", "@CERT@"), Key: ""}}}
		return true
	}},
	{"listener-tls-bad-pair", "httpserver", func(g *gen, d *cDesc) bool {
		d.Listeners = []cListener{{Name: "a", Address: ":8443", TLS: &cTLS{Cert: g.pickS("@JUNK@", "@MISSING@", "@KEY@"), Key: "@KEY@"}}}
		return true
	}},
	{"notifier", "notifier", func(g *gen, d *cDesc) bool {
		// one notifier module with one fault (or none), zookeeper present
		d.NotifierSection = true
		if len(d.ZkServers) == 0 {
			d.ZkServers = []string{"zk1:2181"}
		}
		n := cNotifier{Name: "bad", Class: g.pickS("http", "email", "null"), TmplOpen: "@TMPL_OK@", URLOpen: "http://x/", URLClose: "http://x/c", Server: "smtp.example.com", Port: 25,
			From: "a@b.c", To: "d@e.f", TmplClose: "@TMPL_OK@", SendClose: g.chance(1, 2)}
		switch g.intn(16) {
		case 0:
			n.Legacy = g.pickS("group-whitelist", "group-blacklist")
		case 1:
			n.Allow = badRe[g.intn(len(badRe))]
		case 2:
			n.Deny = badRe[g.intn(len(badRe))]
		case 3:
			n.TmplOpen = g.pickS("", "@MISSING@", "@TMPL_BAD@")
		case 4:
			n.SendClose, n.TmplClose = true, g.pickS("", "@MISSING@", "@TMPL_BAD@")
		case 5:
			n.SendClose, n.TmplClose = false, "@TMPL_BAD@" // validity-preserving: the close template is only read with send-close
		case 6:
			n.Class = g.pickS("slack", "HTTP", "")
		case 7:
			n.URLOpen = ""
		case 8:
			n.SendClose, n.URLClose = true, ""
		case 9:
			n.ExtraCa, n.NoVerify = "@MISSING@", g.chance(1, 2)
		case 10:
			n.Server = g.pickS("", "-bad", "::1", "a b")
		case 11:
			n.From = ""
		case 12:
			n.To = ""
		case 13:
			n.Auth = g.pickS("login", "oauth")
		case 14:
			n.Port = g.pick(0, -1) // validity-preserving: the port cannot make the check fail
		}
		d.Notifiers = []cNotifier{n}
		return true
	}},
	{"cluster", "cluster", func(g *gen, d *cDesc) bool {
		c := cCluster{Name: "badcl", Class: "kafka", Servers: []string{"k1:9092"}}
		switch g.intn(9) {
		case 0:
			c.Class = g.pickS("Kafka", "pulsar", "")
		case 1:
			c.Profile = "nosuchprofile"
		case 2:
			c.Servers = nil
		case 3:
			c.Servers = []string{}
		case 4:
			c.Servers = []string{"k1:9092", badHosts[g.intn(len(badHosts))]}
		case 5:
			d.Profiles = append(d.Profiles, cProfile{Name: "vprof", Version: strp(g.pickS("1.0", "0.10.2.x", "two", "1.0.0.0", "2"))})
			c.Profile = "vprof"
		case 6:
			d.Profiles = append(d.Profiles, cProfile{Name: "tprof", TLS: &cTLS{Ca: "@MISSING@"}})
			c.Profile = "tprof"
		case 7:
			d.Profiles = append(d.Profiles, cProfile{Name: "tprof", TLS: &cTLS{Ca: "@CERT@", Cert: g.pickS("@JUNK@", "@KEY@"), Key: "@KEY@"}})
			c.Profile = "tprof"
		case 8:
			// validity-preserving: without a CA file a bad key pair is never loaded; an empty profile table is a known profile
			d.Profiles = append(d.Profiles, cProfile{Name: "tprof", TLS: &cTLS{Cert: "@JUNK@", Key: "@KEY@"}})
			c.Profile = g.pickS("tprof", "TPROF")
		}
		d.Clusters = append(d.Clusters, c)
		return true
	}},
	{"consumer", "consumer", func(g *gen, d *cDesc) bool {
		if len(d.Clusters) == 0 {
			d.Clusters = []cCluster{{Name: "cl0", Class: "kafka", Servers: []string{"k1:9092"}}}
		}
		c := cConsumer{Name: "badco", Cluster: d.Clusters[0].Name, Class: g.pickS("kafka", "kafka_zk"), Servers: []string{"k1:9092"}}
		switch g.intn(11) {
		case 0:
			c.Cluster = g.pickS("", "nosuchcluster")
		case 1:
			c.Class = g.pickS("Kafka", "zk", "")
		case 2:
			c.Servers = nil
		case 3:
			c.Servers = []string{badHosts[g.intn(len(badHosts))]}
		case 4:
			c.Legacy = g.pickS("group-whitelist", "group-blacklist")
		case 5:
			c.Allow = badRe[g.intn(len(badRe))]
		case 6:
			c.Deny = badRe[g.intn(len(badRe))]
		case 7:
			c.Class, c.ZkPath = "kafka_zk", strp(g.pickS("/", "kafka", "/a/", "/a b"))
		case 8:
			c.Class, c.Profile = "kafka", "nosuchprofile"
		case 9:
			c.Class, c.Profile = "kafka_zk", "nosuchprofile" // validity-preserving: kafka_zk does not use client profiles
		case 10:
			c.Cluster = strings.ToUpper(d.Clusters[0].Name) // validity-preserving: viper keys are case-insensitive
		}
		d.Consumers = append(d.Consumers, c)
		return true
	}},
}

func genConfig(g *gen) {
	n := 150 * g.scale
	for i := 0; i < n; i++ {
		g.newCase()
		emit := func(d *cDesc) {
			b, _ := json.Marshal(d)
			g.emit("C start %s", hexName(string(b)))
		}
		base := genBaseConfig(g)
		emit(base)
		// every single edit, and a few pairs (in different coordinators)
		for k := 0; k < 6; k++ {
			b, _ := json.Marshal(base)
			var d cDesc
			_ = json.Unmarshal(b, &d)
			e1 := cfgEdits[g.intn(len(cfgEdits))]
			if !e1.apply(g, &d) {
				continue
			}
			if g.chance(1, 3) {
				e2 := cfgEdits[g.intn(len(cfgEdits))]
				if e2.coord != e1.coord {
					e2.apply(g, &d)
				}
			}
			emit(&d)
		}
	}
}
