package main

import (
	"math"
	"strings"
)

// Stream "evalcache": status requests through a persistent CachingEvaluator (goswarm cache) on real storage (C05).
// Same runner and op syntax as stream "storage", plus
//
//	S cacheinit <expire-s> <minbits> <allowed> | S cq <cluster> <group> <showall> | S cage <ms>

func init() { register(&stream{name: "evalcache", gen: genEvalCache, run: runStorage}) }

func genEvalCache(g *gen) {
	n := 150 * g.scale
	// "A" differs from "a" only in case; "C1" and "A B" are NOT configured (storage is case-sensitive)
	clusters := []string{"a", "a b", "c1", "A"}
	groups := []string{"c", "b c", "g", "", "x y z"}
	for i := 0; i < n; i++ {
		g.newCase()
		var cl []string
		for _, c := range clusters {
			cl = append(cl, hexName(c))
		}
		expireGroup := g.pick(3600, 3600, 30)
		g.emit("S init %d %d 0 - - %s", 1+g.intn(3), expireGroup, strings.Join(cl, ","))
		for _, c := range clusters {
			g.emit("S broker %s %s 0 2 %d 1", hexName(c), hexName("t"), g.pick(100, 150))
			g.emit("S broker %s %s 1 2 %d 1", hexName(c), hexName("t"), g.pick(100, 150))
		}
		life := g.pick(0, 5, 10, 10)
		g.emit("S cacheinit %d %08x %d", life, math.Float32bits(0), g.pick(0, 1000))
		pickC := func() string {
			if g.chance(1, 8) {
				return hexName(g.pickS("nope", "C1", "A B"))
			}
			return hexName(clusters[g.intn(len(clusters))])
		}
		pickG := func() string { return hexName(groups[g.intn(len(groups))]) }
		order := int64(0)
		steps := 10 + g.intn(40)
		for s := 0; s < steps; s++ {
			_ = s
			switch x := g.intn(100); {
			case x < 30:
				order++
				g.emit("S commit %s %s %s %d %d %d %d", pickC(), pickG(), hexName("t"), g.intn(2), 90+order, order, -20000+order*500)
			case x < 36:
				g.emit("S broker %s %s %d 2 %d 1", pickC(), hexName("t"), g.intn(2), 100+order*3)
			case x < 42:
				g.emit("S delgroup %s %s -", pickC(), pickG())
			case x < 45:
				g.emit("S deltopic %s %s", pickC(), hexName("t"))
			case x < 50:
				g.emit("S shift %d", g.pick(5000, 20000, 40000))
			case x < 65:
				g.emit("S cage %d", g.pick(0, 1, 2, 4, 5, 6, 9, 10, 11, 30)*1000+8)
			default:
				// always let a little cache time pass first: a zero distance is seen as a few µs by the real clock
				g.emit("S cage 8")
				g.emit("S cq %s %s %d", pickC(), pickG(), g.intn(2))
			}
		}
		if i%5 == 2 && life > 0 {
			// staleness is bounded by ONE lifetime counted from the evaluation, whichever views are asked for in between:
			// full view at t0, problems-only view at 0.6 L, a change in storage, problems-only view again at 1.1 L
			c, gr := hexName(clusters[g.intn(len(clusters))]), hexName(g.pickS("c", "g", "b c"))
			order++
			g.emit("S commit %s %s %s 0 %d %d %d", c, gr, hexName("t"), 40, order, -2000+order*500)
			g.emit("S cage 30008")
			g.emit("S cq %s %s 1", c, gr)
			g.emit("S cage %d", life*600+8)
			g.emit("S cq %s %s 0", c, gr)
			if g.chance(1, 2) {
				g.emit("S delgroup %s %s -", c, gr)
			} else {
				order++
				g.emit("S commit %s %s %s 0 %d %d %d", c, gr, hexName("t"), 95, order, -2000+order*500)
				g.emit("S broker %s %s 0 2 %d 1", c, hexName("t"), 5000+order)
			}
			g.emit("S cage %d", life*500+8)
			g.emit("S cq %s %s 0", c, gr)
			g.emit("S cage 8")
			g.emit("S cq %s %s 1", c, gr)
		}
		if i%12 == 5 && i < 300 {
			// a cache miss on an existing group while the storage subsystem is slow to accept the evaluator's fetch:
			// the answer is still the group's status, and it is what gets cached
			c, gr := hexName(clusters[g.intn(len(clusters))]), hexName(g.pickS("c", "g", "b c"))
			order++
			g.emit("S commit %s %s %s 0 %d %d %d", c, gr, hexName("t"), 90+order, order, -2000+order*500)
			g.emit("S cage 30008")
			g.emit("S cqslow %s %s %d", c, gr, g.intn(2))
			g.emit("S cage 8")
			g.emit("S cq %s %s 1", c, gr)
		}
		if i%12 == 1 && i < 400 {
			// many requests at once through the real evaluator coordinator's forwarder: one reply each, rightly named
			g.emit("S cburst %d %s %s", int(g.pick(3, 8, 24, 40)), hexName(clusters[g.intn(len(clusters))]), strings.Join([]string{hexName("c"), hexName("g"), hexName("b c"), hexName("nope")}, ","))
		}
		if i%12 == 9 && i < 400 {
			// two requests for one group while its entry has expired, storage has changed, and the evaluation of the first is
			// still waiting for storage: BOTH answers are the group's status now, none is the expired entry
			c, gr := hexName(clusters[g.intn(len(clusters))]), hexName(g.pickS("c", "g", "b c"))
			order++
			g.emit("S commit %s %s %s 0 %d %d %d", c, gr, hexName("t"), 40, order, -2000+order*500)
			g.emit("S cage 30008")
			g.emit("S cq %s %s 1", c, gr)
			order++
			g.emit("S commit %s %s %s 0 %d %d %d", c, gr, hexName("t"), 60+order, order, -2000+order*500)
			g.emit("S broker %s %s 0 2 %d 1", c, hexName("t"), 7000+order)
			g.emit("S cage 30008")
			g.emit("S cqdup %s %s %d %d", c, gr, g.intn(2), g.intn(2))
		}
	}
}
