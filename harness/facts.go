package main

import (
	"encoding/json"
	"fmt"
	"os"
	"path/filepath"
	"reflect"
	"sort"
	"strings"
	"text/template"
	"time"

	"github.com/linkedin/Burrow/core/protocol"
	"github.com/linkedin/Burrow/core/verifhook"
)

// `harness facts -out <dir>`: regenerates the part of the Lean model that is tables and shapes from
// /repo's working tree (DESIGN §2.2.1).  Everything is written to <dir>; the orchestrator copies
// changed files into lean/BurrowVerif/Generated.
//
//   Templates.lean  F6: parse trees of config/*.tmpl (parsed with the function Configure installs),
//                       the schema of the value handed to templates (reflection over the real value
//                       captured inside a real executeTemplate call) and the helper function names
//   facts.json      the same, readable

type factsOut struct {
	dir   string
	facts map[string]interface{}
}

func runFacts(dir string) error {
	if err := os.MkdirAll(dir, 0o755); err != nil {
		return err
	}
	fo := &factsOut{dir: dir, facts: map[string]interface{}{}}
	if err := fo.templates(); err != nil {
		return err
	}
	for _, f := range extraFacts {
		if err := f(fo); err != nil {
			return err
		}
	}
	b, _ := json.MarshalIndent(fo.facts, "", " ")
	return os.WriteFile(filepath.Join(dir, "facts.json"), b, 0o644)
}

// further fact generators register themselves here
var extraFacts []func(*factsOut) error

func (fo *factsOut) write(name, content string) error {
	return os.WriteFile(filepath.Join(fo.dir, name), []byte(content), 0o644)
}

// ---- F6 ----------------------------------------------------------------------------------------

type schemaBuilder struct {
	defs  map[string]string // name -> Lean StructDef term
	order []string
	plain map[string]interface{}
}

var timeType = reflect.TypeOf(time.Time{})
var statusType = reflect.TypeOf(protocol.StatusConstant(0))

func (sb *schemaBuilder) ty(t reflect.Type) string {
	switch {
	case t == timeType:
		return ".time"
	case t == statusType:
		return ".status"
	}
	if t.PkgPath() != "" && t.Kind() != reflect.Struct {
		// a defined non-struct type other than StatusConstant: methods could change how it prints
		return ".other " + leanStr(t.String())
	}
	switch t.Kind() {
	case reflect.String:
		return ".str"
	case reflect.Bool:
		return ".bool"
	case reflect.Float32, reflect.Float64:
		return ".float"
	case reflect.Int:
		return ".int 0"
	case reflect.Int8, reflect.Int16, reflect.Int32, reflect.Int64:
		return fmt.Sprintf(".int %d", t.Bits())
	case reflect.Uint64:
		return ".uint"
	case reflect.Pointer:
		return ".ptr (" + sb.ty(t.Elem()) + ")"
	case reflect.Slice:
		return ".slice (" + sb.ty(t.Elem()) + ")"
	case reflect.Map:
		if t.Key().Kind() == reflect.String && t.Elem().Kind() == reflect.String && t.Key().PkgPath() == "" && t.Elem().PkgPath() == "" {
			return ".mapSS"
		}
	case reflect.Struct:
		name := t.Name()
		if name == "" {
			name = "Data"
		}
		if _, ok := sb.defs[name]; !ok {
			sb.defs[name] = "" // recursion guard
			var fields []string
			plainFields := [][2]string{}
			for i := 0; i < t.NumField(); i++ {
				f := t.Field(i)
				ft := ".other \"unexported or embedded\""
				if f.IsExported() && !f.Anonymous {
					ft = sb.ty(f.Type)
				}
				fields = append(fields, "("+leanStr(f.Name)+", "+ft+")")
				plainFields = append(plainFields, [2]string{f.Name, ft})
			}
			var methods []string
			pt := reflect.PointerTo(t)
			for i := 0; i < pt.NumMethod(); i++ {
				methods = append(methods, pt.Method(i).Name)
			}
			sort.Strings(methods)
			sb.defs[name] = "{ tag := " + leanStr(name) + ", fields := [" + strings.Join(fields, ", ") + "], methods := " + leanStrList(methods) + " }"
			sb.order = append(sb.order, name)
			sb.plain[name] = map[string]interface{}{"fields": plainFields, "methods": methods}
		}
		return ".named " + leanStr(name)
	}
	return ".other " + leanStr(t.String())
}

func (fo *factsOut) templates() error {
	// the value handed to templates, captured inside a real executeTemplate call
	var captured reflect.Type
	capture := template.FuncMap{"verifcapture": func(v interface{}) string { captured = reflect.TypeOf(v); return "" }}
	t, err := template.New("capture").Funcs(verifhook.HelperFunctionMap()).Funcs(capture).Parse("{{verifcapture .}}")
	if err != nil {
		return err
	}
	if _, err := verifhook.ExecuteTemplate(t, map[string]string{}, &protocol.ConsumerGroupStatus{}, "id", time.Unix(0, 0)); err != nil {
		return fmt.Errorf("capturing the template data: %v", err)
	}
	sb := &schemaBuilder{defs: map[string]string{}, plain: map[string]interface{}{}}
	root := sb.ty(captured)
	// method sets of the two non-struct types with methods that occur in the data
	for name, t := range map[string]reflect.Type{"StatusConstant": statusType, "Time": timeType} {
		var methods []string
		pt := reflect.PointerTo(t)
		for i := 0; i < pt.NumMethod(); i++ {
			methods = append(methods, pt.Method(i).Name)
		}
		sort.Strings(methods)
		sb.defs[name] = "{ tag := " + leanStr(name) + ", fields := [], methods := " + leanStrList(methods) + " }"
		sb.order = append(sb.order, name)
		sb.plain[name] = map[string]interface{}{"methods": methods}
	}
	var defs []string
	sort.Strings(sb.order)
	for _, n := range sb.order {
		defs = append(defs, "  ("+leanStr(n)+", "+sb.defs[n]+")")
	}
	var helpers []string
	for name := range verifhook.HelperFunctionMap() {
		helpers = append(helpers, name)
	}
	sort.Strings(helpers)

	var b strings.Builder
	b.WriteString("/- GENERATED by `harness facts` from /repo's working tree on every run — do not edit.\n")
	b.WriteString("   F6: shipped notification templates, schema of the template data, helper function names. -/\n")
	b.WriteString("import BurrowVerif.Model.Tmpl\n\nnamespace Burrow.Generated\nopen Burrow.Tmpl\n\n")
	b.WriteString("def dataSchema : Schema := [\n" + strings.Join(defs, ",\n") + "]\n\n")
	b.WriteString("def dataType : Ty := " + root + "\n\n")
	b.WriteString("def helperNames : List String := " + leanStrList(helpers) + "\n\n")
	files, _ := filepath.Glob(filepath.Join(repoDir(), "config", "*.tmpl"))
	sort.Strings(files)
	var names []string
	plainT := map[string]string{}
	for i, f := range files {
		name := filepath.Base(f)
		tt, err := tmplParseFile(name)
		term := ""
		if err != nil {
			term = "(T.unsupported " + leanStr("does not parse: "+err.Error()) + " T.done)"
			plainT[name] = "does not parse: " + err.Error()
		} else {
			term = tmplPrinter{lean: true}.list(tt.Tree.Root, 0)
			plainT[name] = tmplPrinter{}.list(tt.Tree.Root, 0)
		}
		fmt.Fprintf(&b, "def tmpl%d : T :=\n  %s\n\n", i, term)
		names = append(names, fmt.Sprintf("(%s, tmpl%d)", leanStr(name), i))
	}
	b.WriteString("/-- every `config/*.tmpl` of the working tree -/\n")
	b.WriteString("def shippedTemplates : List (String × T) := [" + strings.Join(names, ", ") + "]\n\nend Burrow.Generated\n")
	fo.facts["F6_template_schema"] = sb.plain
	fo.facts["F6_template_root"] = root
	fo.facts["F6_helpers"] = helpers
	fo.facts["F6_templates"] = plainT
	return fo.write("Templates.lean", b.String())
}
