package main

import (
	"fmt"
	"math"
	"regexp"
	"sort"
	"strconv"
	"strings"
	"sync/atomic"
	"time"

	"github.com/spf13/viper"
	"go.uber.org/zap"

	"github.com/linkedin/Burrow/core/protocol"
	"github.com/linkedin/Burrow/core/verifhook"
)

// Stream "storage": sequential histories against the real InMemoryStorage handlers (C01, C02, C09, C10).
//
//	S init <intervals> <expire> <minDist> <allowRe|-> <denyRe|-> <clusters>      resolved: regexps become 0/1 flags
//	S broker <cluster> <topic> <part> <count> <offset> <ts>
//	S commit <cluster> <group> <topic> <part> <offset> <order> <relts>            resolved: S commit <now> … <abs ts> <am> <dm>
//	S owner <cluster> <group> <topic> <part> <owner> <client>                     resolved: … <am> <dm>
//	S clear <cluster> <group>                                                     resolved: … <am> <dm>
//	S deltopic <cluster> <topic>
//	S delgroup <cluster> <group> <topic|->
//	S shift <deltaMs>
//	S clusters | S consumers <cluster> | S topics <cluster> | S topic <cluster> <topic> | S fortopic <cluster> <topic>
//	S consumer <cluster> <group>                                                  resolved: S consumer <now> <cluster> <group>
//
// names are hex ("-" = empty string)

func init() { register(&stream{name: "storage", gen: genStorage, run: runStorage}) }

var stClusters = []string{"c0", "c1"}
var stGroups = []string{"g0", "g1", "g2", "g 3", "grüp", "x1", "burrow-c0"}
var stTopics = []string{"t0", "t1", "t2"}

func genStorage(g *gen) {
	ncases := 250 * g.scale
	for i := 0; i < ncases; i++ {
		g.newCase()
		if i%9 == 7 {
			// the configuration phase: which settings and lists the module ends up with
			opt := func(vals ...int64) string {
				if g.chance(1, 2) {
					return "-"
				}
				return fmt.Sprint(g.pick(vals...))
			}
			lst := func(pats ...string) string {
				switch g.intn(4) {
				case 0:
					return "-"
				case 1:
					return "E"
				}
				return hexName(g.pickS(pats...))
			}
			for k := 0; k < 3; k++ {
				g.emit("S sconf %s %s %s %s %s %s %s", opt(1, 2, 10, 15), opt(5, 3600, 604800), opt(0, 1, 30), opt(1, 4, 20), opt(1, 8), lst("^g", "^g[01]", "a$"), lst("1$", "^x", "team"))
			}
		} else if i%6 == 4 {
			genStorageMixed(g)
		} else if g.chance(2, 5) {
			genStorageRing(g)
		} else {
			genStorageGeneral(g)
		}
	}
}

// one group whose partitions — over several topics — are each driven into a chosen state (C04: the group status is
// the worst of them whatever order the topics are walked in, Maxlag the largest lag, the totals the sums)
func genStorageMixed(g *gen) {
	c, grp := hexName("c0"), hexName("g0")
	g.emit("S init 2 3600 0 - - %s", c)
	ntopics := 2 + g.intn(2)
	order := int64(1)
	for ti := 0; ti < ntopics; ti++ {
		t := hexName(stTopics[ti])
		nparts := 1 + g.intn(2)
		for part := 0; part < nparts; part++ {
			commit := func(off, rel int64) {
				g.emit("S commit %s %s %s %d %d %d %d", c, grp, t, part, off, order, rel)
				order++
			}
			broker := func(off int64) { g.emit("S broker %s %s %d %d %d 1", c, t, part, nparts, off) }
			base := g.pick(10, 100, 5000)
			switch g.intn(6) {
			case 0: // stopped: the last commit is older than the window is long, and behind
				broker(base + 900)
				commit(base, -300000)
				commit(base+10, -290000)
			case 1: // falling behind: offsets advance, lag grows
				broker(base + 50)
				commit(base, -5000)
				broker(base + 200)
				commit(base+10, -1000)
			case 2: // stalled: same offset, behind
				broker(base + 70)
				commit(base, -5000)
				commit(base, -1000)
			case 3: // rewound
				broker(base + 40)
				commit(base+20, -5000)
				commit(base+5, -1000)
			case 4: // caught up
				broker(base + 10)
				commit(base+5, -5000)
				commit(base+10, -1000)
			default: // a single commit: window not full
				broker(base + 30)
				commit(base, -2000)
			}
		}
	}
	for k := 0; k < 3; k++ {
		g.emit("S status %s %s %08x %d %d", c, grp, math.Float32bits([]float32{0, 0.5, 1.0}[g.intn(3)]), g.pick(0, 0, 1, 5), g.intn(2))
	}
	g.emit("S consumer %s %s", c, grp)
}

// one partition, dense log positions, a fetch after every commit (C02, C01)
func genStorageRing(g *gen) {
	intervals := 1 + g.intn(5)
	minDist := g.pick(0, 0, 0, 1, 2, 5)
	g.emit("S init %d 3600 %d - - %s", intervals, minDist, hexName("c0"))
	c, grp, t := hexName("c0"), hexName("g0"), hexName("t0")
	nparts := 1 + g.intn(2)
	broker := g.pick(100, 100, 105, 1000)
	g.emit("S broker %s %s 0 %d %d 1", c, t, nparts, broker)
	tsMono := g.chance(3, 4)
	norders := int(g.pick(4, 6, 8, 12))
	n := 4 + g.intn(14)
	for k := 0; k < n; k++ {
		order := int64(g.intn(norders))
		off := 90 + order*3 + int64(g.intn(2))
		if g.chance(1, 8) {
			off = g.pick(0, 99, 100, 101, 200, 1<<40)
		}
		var rel int64
		if tsMono {
			rel = -200000 + order*g.pick(1000, 1000, 3000) // non-decreasing along the log
			if g.chance(1, 4) && minDist > 0 {
				rel = -200000 + order*400
			}
		} else {
			rel = -int64(g.intn(200)) * 1000
		}
		g.emit("S commit %s %s %s 0 %d %d %d", c, grp, t, off, order, rel)
		if g.chance(1, 5) {
			g.emit("S status %s %s %08x %d %d", c, grp, math.Float32bits([]float32{0, 0.5, 1.0}[g.intn(3)]), g.pick(0, 0, 1, 5), g.intn(2))
		}
		if g.chance(1, 6) {
			broker += g.pick(0, 1, 5, 50)
			g.emit("S broker %s %s 0 %d %d 1", c, t, nparts, broker)
		}
		g.emit("S consumer %s %s", c, grp)
	}
	g.emit("S kept")
}

func genStorageGeneral(g *gen) {
	intervals := 1 + g.intn(4)
	expire := g.pick(3600, 3600, 3600, 5, 1)
	minDist := g.pick(0, 0, 0, 1)
	allow, deny := "-", "-"
	if g.chance(1, 4) {
		allow = hexName(g.pickS("^g", "^g[01]", "g"))
	}
	if g.chance(1, 4) {
		deny = hexName(g.pickS("1$", "^x", "ü"))
	}
	nclusters := 1 + g.intn(2)
	cl := []string{}
	for i := 0; i < nclusters; i++ {
		cl = append(cl, hexName(stClusters[i]))
	}
	g.emit("S init %d %d %d %s %s %s", intervals, expire, minDist, allow, deny, strings.Join(cl, ","))
	pickCluster := func() string {
		if g.chance(1, 25) {
			return hexName("nope")
		}
		return hexName(stClusters[g.intn(nclusters)])
	}
	pickGroup := func() string { return hexName(stGroups[g.intn(len(stGroups))]) }
	pickTopic := func() string { return hexName(stTopics[g.intn(len(stTopics))]) }
	counts := map[string]int{}
	fetchAll := func() {
		g.emit("S clusters")
		for i := 0; i < nclusters; i++ {
			c := hexName(stClusters[i])
			g.emit("S consumers %s", c)
			g.emit("S topics %s", c)
			for _, t := range stTopics {
				g.emit("S topic %s %s", c, hexName(t))
				g.emit("S fortopic %s %s", c, hexName(t))
			}
			for _, gr := range stGroups {
				g.emit("S consumer %s %s", c, hexName(gr))
				if g.chance(1, 3) {
					g.emit("S status %s %s %08x %d %d", c, hexName(gr), math.Float32bits([]float32{0, 0.3, 0.5, 1.0}[g.intn(4)]), g.pick(0, 0, 1, 5, 100), g.intn(2))
				}
			}
			g.emit("S consumers %s", c)
		}
	}
	n := 10 + g.intn(40)
	for k := 0; k < n; k++ {
		switch x := g.intn(100); {
		case x < 25:
			c, t := pickCluster(), pickTopic()
			cnt := counts[c+t]
			if cnt == 0 || g.chance(1, 6) {
				cnt = 1 + g.intn(4)
				counts[c+t] = cnt
			}
			part := g.intn(cnt)
			if g.chance(1, 40) {
				part = cnt + g.intn(2) // out of range: Go panics (index out of range)
			}
			if g.chance(1, 60) {
				part = -1
			}
			off := g.pick(0, 10, 100, 101, 110, 1000, math.MaxInt64)
			g.emit("S broker %s %s %d %d %d %d", c, t, part, cnt, off, 1+g.intn(5))
		case x < 62:
			c, t := pickCluster(), pickTopic()
			cnt := counts[c+t]
			part := g.intn(4)
			if cnt > 0 && g.chance(5, 6) {
				part = g.intn(cnt)
			}
			if g.chance(1, 60) {
				part = -1
			}
			order := int64(g.intn(10))
			off := g.pick(0, 5, 95, 100, 101, 105, 120, 2000, -1, math.MaxInt64)
			if g.chance(1, 2) {
				off = 90 + order*2
			}
			rel := -300000 + order*1000
			if g.chance(1, 5) {
				rel = -int64(g.intn(300)) * 1000
			}
			if expire <= 5 {
				rel = g.pick(-6000, -5001, -5000, -4999, -4000, -2000, -1001, -1000, -999, -500, 0, 1000)
			}
			if g.chance(1, 25) {
				rel = -3600*1000 + g.pick(-1000, -1, 0, 1, 1000)
			}
			g.emit("S commit %s %s %s %d %d %d %d", c, pickGroup(), t, part, off, order, rel)
		case x < 68:
			part := g.intn(4)
			if g.chance(1, 8) {
				// an assignment can name any partition number: beyond what the topic has, or negative
				part = int(g.pick(-1, 7, 1<<20, math.MinInt32))
			}
			g.emit("S owner %s %s %s %d %s %s", pickCluster(), pickGroup(), pickTopic(), part, hexName(g.pickS("host1", "host2", "")), hexName(g.pickS("cl1", "cl 2", "")))
		case x < 70:
			g.emit("S clear %s %s", pickCluster(), pickGroup())
		case x < 74:
			c, t := pickCluster(), pickTopic()
			g.emit("S deltopic %s %s", c, t)
			delete(counts, c+t)
			fetchAll()
		case x < 78:
			g.emit("S delgroup %s %s -", pickCluster(), pickGroup())
			fetchAll()
		case x < 82:
			if g.chance(1, 3) {
				// directed: the group commits to two topics, the topic committed to LAST is removed from the group, and
				// the group's next commits go to that same topic again — they must start a fresh history that is served
				c, gr := pickCluster(), pickGroup()
				t, u := pickTopic(), pickTopic()
				for _, x := range []string{t, u} {
					if counts[c+x] == 0 {
						counts[c+x] = 1 + g.intn(3)
					}
					g.emit("S broker %s %s 0 %d %d 1", c, x, counts[c+x], 500+g.intn(3)*100)
				}
				base := int64(20 + g.intn(5))
				g.emit("S commit %s %s %s 0 %d %d %d", c, gr, t, 400, base, -900)
				g.emit("S commit %s %s %s 0 %d %d %d", c, gr, u, 410, base+1, -800)
				g.emit("S commit %s %s %s 0 %d %d %d", c, gr, t, 420, base+2, -700)
				g.emit("S delgroup %s %s %s", c, gr, t)
				g.emit("S commit %s %s %s 0 %d %d %d", c, gr, t, 430, base+3, -600)
				g.emit("S consumer %s %s", c, gr)
				g.emit("S commit %s %s %s 0 %d %d %d", c, gr, t, 440, base+4, -500)
				g.emit("S consumer %s %s", c, gr)
				fetchAll()
				break
			}
			g.emit("S delgroup %s %s %s", pickCluster(), pickGroup(), pickTopic())
			fetchAll()
		case x < 85:
			g.emit("S shift %d", g.pick(500, 1000, 2000, 4000, 5000, 3600000, 3595000))
		case x < 89:
			if g.chance(1, 3) {
				c := pickCluster()
				g.emit("S consumerbusy %s %s", c, pickGroup())
				g.emit("S consumers %s", c)
				break
			}
			g.emit("S consumer %s %s", pickCluster(), pickGroup())
		case x < 93:
			g.emit("S status %s %s %08x %d %d", pickCluster(), pickGroup(), math.Float32bits([]float32{0, 0.3, 0.5, 1.0}[g.intn(4)]), g.pick(0, 0, 1, 5, 100), g.intn(2))
		case x < 95:
			if g.chance(1, 2) {
				// the cluster module's groups reaper against this storage
				c := pickCluster()
				kg := "!"
				if !g.chance(1, 6) {
					var xs []string
					for _, gr := range stGroups {
						if g.chance(1, 2) {
							xs = append(xs, hexName(gr))
						}
					}
					kg = "-"
					if len(xs) > 0 {
						kg = strings.Join(xs, ",")
					}
				}
				g.emit("S reap %s %s", c, kg)
				fetchAll()
				break
			}
			g.emit("S consumers %s", pickCluster())
		case x < 97:
			g.emit("S topic %s %s", pickCluster(), pickTopic())
		case x < 98:
			g.emit("S fortopic %s %s", pickCluster(), pickTopic())
		case x < 99:
			g.emit("S topics %s", pickCluster())
		default:
			g.emit("S clusters")
		}
	}
	fetchAll()
	g.emit("S kept")
}

type storageRunner struct {
	st          *verifhook.Storage
	allow, deny *regexp.Regexp
	app         *protocol.ApplicationContext
	served      int64 // storage requests answered through the channel
	ev          *verifhook.Evaluator
	evRef       time.Time
	http        *httpState
	secrets     []string
	concWorkers int
	lastBroker  []*protocol.StorageRequest
	hold        chan struct{} // fault injection: serve() stops taking requests until released
	kept        []keptReply   // consumer detail replies handed out since init, with what they said then
	evCoord     *verifhook.EvaluatorCoordinator
	sconfN      int
}

var sconfSamples = []string{"g0", "g1", "x1", "", "team-a", "g 3"}

type keptReply struct {
	reply protocol.ConsumerTopics
	text  string
}

// serve answers storage requests arriving on the application's storage channel (as the storage
// coordinator would) by executing them synchronously on the current storage module.
func (s *storageRunner) serve() {
	for req := range s.app.StorageChannel {
		if req == nil {
			// fault injection (cqslow): storage is busy — it takes no request until the harness releases it
			<-s.hold
			continue
		}
		func() {
			defer func() {
				if r := recover(); r != nil && req.Reply != nil {
					func() {
						defer func() { _ = recover() }()
						close(req.Reply)
					}()
				}
			}()
			s.st.Handle(req)
		}()
		atomic.AddInt64(&s.served, 1)
	}
}

func showStatusOffset(c *protocol.ConsumerOffset) string {
	if c == nil {
		return "nil"
	}
	l := "-"
	if c.Lag != nil {
		l = strconv.FormatUint(c.Lag.Value, 10)
	}
	return fmt.Sprintf("%d:%d:%s", c.Offset, c.Timestamp, l)
}

func renderGroupStatus(st *protocol.ConsumerGroupStatus) string {
	var parts []string
	for _, p := range st.Partitions {
		parts = append(parts, fmt.Sprintf("%s/%d/%d/%d/%08x/%s/%s/%s/%s", hexName(p.Topic), p.Partition, int(p.Status), p.CurrentLag,
			math.Float32bits(p.Complete), showStatusOffset(p.Start), showStatusOffset(p.End), hexName(p.Owner), hexName(p.ClientID)))
	}
	sort.Strings(parts)
	ps := "-"
	if len(parts) > 0 {
		ps = strings.Join(parts, ",")
	}
	maxlag := "-"
	if st.Maxlag != nil {
		maxlag = strconv.FormatUint(st.Maxlag.CurrentLag, 10)
	}
	return fmt.Sprintf("gs=%d complete=%08x count=%d total=%d maxlag=%s parts=%s", int(st.Status), math.Float32bits(st.Complete),
		st.TotalPartitions, st.TotalLag, maxlag, ps)
}

func sortedHexList(xs []string) string {
	if len(xs) == 0 {
		return "-"
	}
	hs := make([]string, len(xs))
	for i, x := range xs {
		hs[i] = hexName(x)
	}
	sort.Strings(hs)
	return strings.Join(hs, ",")
}

// renderTopics prints a ConsumerTopics reply as the four canonical keys win/lag/own/bro.
func renderTopics(topics protocol.ConsumerTopics) string {
	names := make([]string, 0, len(topics))
	for t := range topics {
		names = append(names, hexName(t))
	}
	sort.Strings(names)
	var win, lag, own, bro []string
	for _, hn := range names {
		parts := topics[unhexName(hn)]
		var w, l, o, b []string
		for _, p := range parts {
			if len(p.Offsets) == 0 {
				w = append(w, "-")
			} else {
				es := make([]string, len(p.Offsets))
				for i, c := range p.Offsets {
					if c == nil {
						es[i] = "nil"
					} else {
						es[i] = fmt.Sprintf("%d:%d:%d", c.Offset, c.Order, c.Timestamp)
					}
				}
				w = append(w, strings.Join(es, ";"))
			}
			ls := make([]string, len(p.Offsets))
			for i, c := range p.Offsets {
				switch {
				case c == nil:
					ls[i] = "x"
				case c.Lag == nil:
					ls[i] = "-"
				default:
					ls[i] = strconv.FormatUint(c.Lag.Value, 10)
				}
			}
			l = append(l, fmt.Sprintf("%d/%s", p.CurrentLag, strings.Join(ls, ";")))
			o = append(o, hexName(p.Owner)+"/"+hexName(p.ClientID))
			b = append(b, fmtInts(p.BrokerOffsets))
		}
		win = append(win, hn+"["+strings.Join(w, "|")+"]")
		lag = append(lag, hn+"["+strings.Join(l, "|")+"]")
		own = append(own, hn+"["+strings.Join(o, "|")+"]")
		bro = append(bro, hn+"["+strings.Join(b, "|")+"]")
	}
	j := func(xs []string) string {
		if len(xs) == 0 {
			return "-"
		}
		return strings.Join(xs, ",")
	}
	return fmt.Sprintf("win=%s lag=%s own=%s bro=%s", j(win), j(lag), j(own), j(bro))
}

// stableNow waits until the wall clock is not within 10 ms of a second boundary and returns Unix().
func stableNow() int64 {
	for {
		t := time.Now()
		if t.Nanosecond() < 985000000 {
			return t.Unix()
		}
		time.Sleep(16 * time.Millisecond)
	}
}

func (s *storageRunner) oracle(group string) (int, int) {
	am, dm := 1, 0
	if s.allow != nil && !s.allow.MatchString(group) {
		am = 0
	}
	if s.deny != nil && s.deny.MatchString(group) {
		dm = 1
	}
	return am, dm
}

func atoi(s string) int64 {
	v, err := strconv.ParseInt(s, 10, 64)
	if err != nil {
		panic("bad int " + s)
	}
	return v
}

func (s *storageRunner) call(req *protocol.StorageRequest) (res string) {
	defer func() {
		if r := recover(); r != nil {
			res = "panic"
		}
	}()
	s.st.Handle(req)
	return "ok"
}

func (s *storageRunner) fetch(req *protocol.StorageRequest) (reply interface{}, panicked bool) {
	req.Reply = make(chan interface{}, 1)
	defer func() {
		if r := recover(); r != nil {
			panicked = true
		}
	}()
	s.st.Handle(req)
	return <-req.Reply, false
}

// fetchViaChannel sends the request over the application's storage channel (served by the pump) and waits for the reply.
func (s *storageRunner) fetchViaChannel(req *protocol.StorageRequest) (interface{}, bool) {
	req.Reply = make(chan interface{}, 1)
	s.app.StorageChannel <- req
	return <-req.Reply, false
}

func listReply(reply interface{}, panicked bool) string {
	if panicked {
		return "panic"
	}
	if reply == nil {
		return "nil"
	}
	return "list=" + sortedHexList(reply.([]string))
}

func (s *storageRunner) step(r *runner, line string) {
	f := strings.Split(line, " ")
	switch f[1] {
	case "init":
		s.kept = nil
		allow, deny := unhexName(f[5]), unhexName(f[6])
		s.allow, s.deny = nil, nil
		if allow != "" {
			s.allow = regexp.MustCompile(allow)
		}
		if deny != "" {
			s.deny = regexp.MustCompile(deny)
		}
		var clusters []string
		for _, c := range strings.Split(f[7], ",") {
			clusters = append(clusters, unhexName(c))
		}
		s.st = verifhook.NewStorage(nil, int(atoi(f[2])), atoi(f[3]), atoi(f[4]), allow, deny, clusters)
		b := func(re *regexp.Regexp) int {
			if re != nil {
				return 1
			}
			return 0
		}
		r.resolve("S init %s %s %s %d %d %s", f[2], f[3], f[4], b(s.allow), b(s.deny), f[7])
		r.reply("ok")
	case "broker":
		r.resolve("%s", line)
		r.reply("%s", s.call(&protocol.StorageRequest{RequestType: protocol.StorageSetBrokerOffset, Cluster: unhexName(f[2]), Topic: unhexName(f[3]),
			Partition: int32(atoi(f[4])), TopicPartitionCount: int32(atoi(f[5])), Offset: atoi(f[6]), Timestamp: atoi(f[7])}))
	case "commit":
		group := unhexName(f[3])
		am, dm := s.oracle(group)
		now := stableNow()
		ts := now*1000 + atoi(f[8])
		res := s.call(&protocol.StorageRequest{RequestType: protocol.StorageSetConsumerOffset, Cluster: unhexName(f[2]), Group: group, Topic: unhexName(f[4]),
			Partition: int32(atoi(f[5])), Offset: atoi(f[6]), Order: atoi(f[7]), Timestamp: ts})
		if time.Now().Unix() != now {
			res += " tick"
		}
		r.resolve("S commit %d %s %s %s %s %s %s %d %d %d", now, f[2], f[3], f[4], f[5], f[6], f[7], ts, am, dm)
		r.reply("%s", res)
	case "owner":
		group := unhexName(f[3])
		am, dm := s.oracle(group)
		r.resolve("%s %d %d", line, am, dm)
		r.reply("%s", s.call(&protocol.StorageRequest{RequestType: protocol.StorageSetConsumerOwner, Cluster: unhexName(f[2]), Group: group, Topic: unhexName(f[4]),
			Partition: int32(atoi(f[5])), Owner: unhexName(f[6]), ClientID: unhexName(f[7])}))
	case "clear":
		group := unhexName(f[3])
		am, dm := s.oracle(group)
		r.resolve("%s %d %d", line, am, dm)
		r.reply("%s", s.call(&protocol.StorageRequest{RequestType: protocol.StorageClearConsumerOwners, Cluster: unhexName(f[2]), Group: group}))
	case "deltopic":
		r.resolve("%s", line)
		r.reply("%s", s.call(&protocol.StorageRequest{RequestType: protocol.StorageSetDeleteTopic, Cluster: unhexName(f[2]), Topic: unhexName(f[3])}))
	case "delgroup":
		r.resolve("%s", line)
		r.reply("%s", s.call(&protocol.StorageRequest{RequestType: protocol.StorageSetDeleteGroup, Cluster: unhexName(f[2]), Group: unhexName(f[3]), Topic: unhexName(f[4])}))
	case "shift":
		r.resolve("%s", line)
		s.st.ShiftTimes(atoi(f[2]))
		r.reply("ok")
	case "clusters":
		r.resolve("%s", line)
		r.reply("%s", listReply(s.fetch(&protocol.StorageRequest{RequestType: protocol.StorageFetchClusters})))
	case "consumers":
		r.resolve("%s", line)
		r.reply("%s", listReply(s.fetch(&protocol.StorageRequest{RequestType: protocol.StorageFetchConsumers, Cluster: unhexName(f[2])})))
	case "topics":
		r.resolve("%s", line)
		r.reply("%s", listReply(s.fetch(&protocol.StorageRequest{RequestType: protocol.StorageFetchTopics, Cluster: unhexName(f[2])})))
	case "fortopic":
		r.resolve("%s", line)
		r.reply("%s", listReply(s.fetch(&protocol.StorageRequest{RequestType: protocol.StorageFetchConsumersForTopic, Cluster: unhexName(f[2]), Topic: unhexName(f[3])})))
	case "topic":
		r.resolve("%s", line)
		reply, p := s.fetch(&protocol.StorageRequest{RequestType: protocol.StorageFetchTopic, Cluster: unhexName(f[2]), Topic: unhexName(f[3])})
		switch {
		case p:
			r.reply("panic")
		case reply == nil:
			r.reply("nil")
		default:
			r.reply("offs=%s", fmtInts(reply.([]int64)))
		}
	case "status":
		// S status <cluster> <group> <minbits> <allowed> <showall>: a fresh evaluator (empty cache) on the current storage
		bits, _ := strconv.ParseUint(f[4], 16, 32)
		allowed, _ := strconv.ParseUint(f[5], 10, 64)
		ev, err := verifhook.NewEvaluator(s.app, 10, math.Float32frombits(uint32(bits)), allowed)
		if err != nil {
			r.resolve("%s", line)
			r.reply("bad-op")
			return
		}
		now := stableNow()
		req := &protocol.EvaluatorRequest{Cluster: unhexName(f[2]), Group: unhexName(f[3]), ShowAll: f[6] == "1", Reply: make(chan *protocol.ConsumerGroupStatus, 1)}
		res := guard(func() string {
			ev.GetConsumerStatus(req)
			return renderGroupStatus(<-req.Reply)
		})
		if time.Now().Unix() != now {
			res += " tick"
		}
		r.resolve("S status %d %s %s %s %s %s", now, f[2], f[3], f[4], f[5], f[6])
		r.reply("%s", res)
	case "cacheinit":
		// S cacheinit <expire> <minbits> <allowed>: a persistent evaluator with its goswarm cache
		bits, _ := strconv.ParseUint(f[3], 16, 32)
		allowed, _ := strconv.ParseUint(f[4], 10, 64)
		ev, err := verifhook.NewEvaluator(s.app, int(atoi(f[2])), math.Float32frombits(uint32(bits)), allowed)
		r.resolve("%s", line)
		if err != nil {
			r.reply("bad-op")
			return
		}
		s.ev, s.evRef = ev, time.Now()
		r.reply("ok")
	case "cage":
		r.resolve("%s", line)
		if s.ev == nil {
			r.reply("bad-op")
			return
		}
		s.ev.AgeCache(time.Duration(atoi(f[2])) * time.Millisecond)
		r.reply("ok")
	case "cq", "cqslow", "cqdup":
		// S cq <cluster> <group> <showall>: a status request through the persistent evaluator (cache)
		// S cqslow …: the same while storage is slow to accept the evaluator's fetch (resolved as a plain cq)
		now := stableNow()
		// freeze: cancel the real time that passed since the last synchronisation point
		t := time.Now()
		s.ev.AgeCache(-t.Sub(s.evRef))
		s.evRef = t
		before := atomic.LoadInt64(&s.served)
		req := &protocol.EvaluatorRequest{Cluster: unhexName(f[2]), Group: unhexName(f[3]), ShowAll: f[4] == "1", Reply: make(chan *protocol.ConsumerGroupStatus, 1)}
		slow := f[1] == "cqslow"
		dup := f[1] == "cqdup"
		dupVerdict := ""
		ticked := false
		res := guard(func() string {
			if slow {
				// storage accepts the evaluator's fetch only after ~1.3 s (a busy storage subsystem): the answer must be
				// the one storage then gives, however long it took to be accepted
				if s.hold == nil {
					s.hold = make(chan struct{})
				}
				wait := 1300 * time.Millisecond
				if ns := t.Add(wait).Nanosecond(); ns > 880000000 || ns < 30000000 {
					wait += 170 * time.Millisecond // end the wait away from a second boundary
				}
				// the wait is not cache time: un-age what is cached beforehand (nothing is in flight yet) and move the
				// reference point
				s.ev.AgeCache(-wait)
				s.evRef = s.evRef.Add(wait)
				s.app.StorageChannel <- nil
				go s.ev.Request(req)
				time.Sleep(wait - time.Since(t))
				now = time.Now().Unix()
				before = atomic.LoadInt64(&s.served)
				s.hold <- struct{}{}
			} else if dup {
				// S cqdup: a second request for the same group arrives while the first one's evaluation is waiting for storage
				if s.hold == nil {
					s.hold = make(chan struct{})
				}
				wait := 300 * time.Millisecond
				if ns := t.Add(wait).Nanosecond(); ns > 880000000 || ns < 30000000 {
					wait += 170 * time.Millisecond
				}
				s.ev.AgeCache(-wait)
				s.evRef = s.evRef.Add(wait)
				// the second request may want the other view (all partitions / problems only): each gets the view it asked for
				show2 := req.ShowAll
				if len(f) > 5 {
					show2 = f[5] == "1"
				}
				req2 := &protocol.EvaluatorRequest{Cluster: req.Cluster, Group: req.Group, ShowAll: show2, Reply: make(chan *protocol.ConsumerGroupStatus, 1)}
				s.app.StorageChannel <- nil
				go s.ev.Request(req)
				time.Sleep(100 * time.Millisecond)
				go s.ev.Request(req2)
				time.Sleep(wait - time.Since(t))
				now = time.Now().Unix()
				before = atomic.LoadInt64(&s.served)
				s.hold <- struct{}{}
				st2 := <-req2.Reply
				dupVerdict = " second=" + strings.ReplaceAll(renderGroupStatus(st2), " ", "~")
			} else {
				s.ev.Request(req)
			}
			st := <-req.Reply
			ticked = time.Now().Unix() != now
			if st.Status == protocol.StatusNotFound {
				// a cached error is answered at once and refreshed in the background: let that refresh finish
				deadline := time.Now().Add(time.Second)
				for atomic.LoadInt64(&s.served) == before && time.Now().Before(deadline) {
					time.Sleep(200 * time.Microsecond)
				}
				if atomic.LoadInt64(&s.served) != before {
					// a refresh did run: it read the clock
					time.Sleep(2 * time.Millisecond)
					ticked = time.Now().Unix() != now
				}
			}
			return fmt.Sprintf("rc=%s rg=%s %s%s", hexName(st.Cluster), hexName(st.Group), renderGroupStatus(st), dupVerdict)
		})
		if ticked {
			res += " tick"
		}
		if dup {
			show2 := f[4]
			if len(f) > 5 {
				show2 = f[5]
			}
			r.resolve("S cqdup %d %s %s %s %s", now, f[2], f[3], f[4], show2)
		} else {
			r.resolve("S cq %d %s %s %s", now, f[2], f[3], f[4])
		}
		r.reply("%s", res)
	case "sconf":
		// S sconf <intervals> <expire-group> <min-distance> <workers> <queue-depth> <allowRe> <denyRe>   ("-" = key absent,
		// "E" = key present with the empty string): the REAL Configure of the storage module on such a section; prints the
		// settings it ends up with and its verdict on a few group names.  resolved: … + match bits of each list per sample
		s.sconfN++
		root := fmt.Sprintf("storage.sconf%d", s.sconfN)
		for i, key := range []string{"intervals", "expire-group", "min-distance", "workers", "queue-depth"} {
			if f[2+i] != "-" {
				viper.Set(root+"."+key, atoi(f[2+i]))
			}
		}
		bits := [2]string{"-", "-"}
		for i, key := range []string{"group-allowlist", "group-denylist"} {
			switch f[7+i] {
			case "-":
			case "E":
				viper.Set(root+"."+key, "")
			default:
				pat := unhexName(f[7+i])
				viper.Set(root+"."+key, pat)
				re := regexp.MustCompile(pat)
				b := ""
				for _, smp := range sconfSamples {
					b += bit(re.MatchString(smp))
				}
				bits[i] = b
			}
		}
		r.resolve("%s %s %s", line, bits[0], bits[1])
		if s.app.Logger == nil {
			s.app.Logger = zap.NewNop()
		}
		r.reply("%s", guard(func() string {
			m := verifhook.ConfigureStorage(s.app, "sconf", root)
			iv, exp, md, wk, qd := m.Settings()
			acc := ""
			for _, smp := range sconfSamples {
				acc += bit(m.Accept(smp))
			}
			return fmt.Sprintf("sconf iv=%d exp=%d md=%d wk=%d qd=%d acc=%s", iv, exp, md, wk, qd, acc)
		}))
	case "cburst":
		// S cburst <n> <cluster> <group,group,…>: n status requests sent back to back from n goroutines through the REAL
		// evaluator coordinator (real Configure and Start: request forwarder + the module's main loop) on the application's
		// EvaluatorChannel.  Every request gets exactly one reply, and it names the request's own cluster and group.
		r.resolve("%s", line)
		if s.evCoord == nil {
			if s.app.Logger == nil {
				s.app.Logger = zap.NewNop()
			}
			s.app.EvaluatorChannel = make(chan *protocol.EvaluatorRequest)
			viper.Set("evaluator", map[string]interface{}{"burst": map[string]interface{}{"class-name": "caching", "expire-cache": 10}})
			c, err := verifhook.StartEvaluatorCoordinator(s.app)
			if err != nil {
				r.reply("bad-op")
				return
			}
			s.evCoord = c
		}
		n := int(atoi(f[2]))
		groups := strings.Split(f[4], ",")
		reqs := make([]*protocol.EvaluatorRequest, n)
		for i := range reqs {
			reqs[i] = &protocol.EvaluatorRequest{Cluster: unhexName(f[3]), Group: unhexName(groups[i%len(groups)]), ShowAll: i%2 == 0, Reply: make(chan *protocol.ConsumerGroupStatus, 4)}
		}
		res := guard(func() string {
			start := make(chan struct{})
			for _, q := range reqs {
				go func(q *protocol.EvaluatorRequest) {
					<-start
					s.app.EvaluatorChannel <- q
				}(q)
			}
			close(start)
			answered, named, extra, view := 0, "ok", 0, "ok"
			deadline := time.Now().Add(5 * time.Second)
			for _, q := range reqs {
				select {
				case st := <-q.Reply:
					answered++
					if st == nil || st.Cluster != q.Cluster || st.Group != q.Group {
						named = "wrong"
					}
					// … and it is the view THIS request asked for: all partitions, or only those that are not OK
					if st != nil && st.Status != protocol.StatusNotFound {
						if q.ShowAll && len(st.Partitions) != st.TotalPartitions {
							view = "wrong"
						}
						if !q.ShowAll {
							for _, p := range st.Partitions {
								if p.Status <= protocol.StatusOK {
									view = "wrong"
								}
							}
						}
					}
				case <-time.After(time.Until(deadline)):
				}
			}
			time.Sleep(30 * time.Millisecond)
			for _, q := range reqs {
				extra += len(q.Reply)
			}
			return fmt.Sprintf("burst=%d/%d named=%s extra=%d view=%s", answered, n, named, extra, view)
		})
		r.reply("%s", res)
	case "consumer", "consumerbusy":
		now := stableNow()
		if f[1] == "consumerbusy" {
			// the same fetch while a concurrent reader (a consumer list, a topic deletion walking the groups) holds the
			// read lock on the cluster's group map for 10 ms: whatever the fetch has to wait for, its outcome is the same
			if release := s.st.HoldConsumerReadLock(unhexName(f[2])); release != nil {
				go func() {
					time.Sleep(10 * time.Millisecond)
					release()
				}()
			}
		}
		reply, p := s.fetch(&protocol.StorageRequest{RequestType: protocol.StorageFetchConsumer, Cluster: unhexName(f[2]), Group: unhexName(f[3])})
		tick := ""
		if time.Now().Unix() != now {
			tick = " tick"
		}
		r.resolve("S consumer %d %s %s", now, f[2], f[3])
		switch {
		case p:
			r.reply("panic%s", tick)
		case reply == nil:
			r.reply("nil%s", tick)
		default:
			text := renderTopics(reply.(protocol.ConsumerTopics))
			if len(s.kept) < 64 {
				s.kept = append(s.kept, keptReply{reply.(protocol.ConsumerTopics), text})
			}
			r.reply("%s%s", text, tick)
		}
	case "reap":
		// S reap <cluster> <kafka groups|-|!>: the REAL groups reaper of a cluster module named <cluster>
		// (reapNonExistingGroups) against this storage, over the application's storage channel; Kafka's
		// ListConsumerGroups answers the given set ("!" = it fails).  Output: the cluster's groups afterwards.
		r.resolve("%s", line)
		name := unhexName(f[2])
		fake := &verifhook.FakeKafka{}
		fake.GroupsFn = func() (map[string]string, bool) {
			if f[3] == "!" {
				return nil, false
			}
			m := map[string]string{}
			if f[3] != "-" {
				for _, x := range strings.Split(f[3], ",") {
					m[unhexName(x)] = "consumer"
				}
			}
			return m, true
		}
		res := guard(func() string {
			verifhook.NewKafkaCluster(s.app, name).ReapNonExistingGroups(fake)
			// the pump handles requests one at a time: once this fetch is answered, every delete before it is done
			return "reaped " + listReply(s.fetchViaChannel(&protocol.StorageRequest{RequestType: protocol.StorageFetchConsumers, Cluster: name}))
		})
		r.reply("%s", res)
	case "kept":
		// S kept: every consumer detail reply handed out since init still says what it said when it was handed out
		r.resolve("%s", line)
		verdict := "same"
		for _, k := range s.kept {
			if renderTopics(k.reply) != k.text {
				verdict = "changed"
			}
		}
		r.reply("kept=%s", verdict)
	default:
		if s.httpStep(r, f, line) || s.concStep(r, f, line) {
			return
		}
		r.resolve("%s", line)
		r.reply("bad-op")
	}
}

func runStorage(r *runner) {
	s := &storageRunner{app: &protocol.ApplicationContext{StorageChannel: make(chan *protocol.StorageRequest)}}
	go s.serve()
	for {
		line, ok := r.next()
		if !ok {
			return
		}
		if strings.HasPrefix(line, "#") {
			r.resolve("%s", line)
			r.reply("%s", line)
			continue
		}
		s.step(r, line)
	}
}
