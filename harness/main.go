// Command harness: generators and real-code drivers for the Burrow correspondence check.
//
//	harness gen <stream> -seed N -tier quick|thorough -out ops.txt
//	harness run <stream> -in ops.txt -out impl.out -resolved resolved.txt
//
// `gen` derives every random choice from one PRNG seeded with -seed.  `run` executes the real Burrow
// code in-process (build tag verif) and prints one canonical line per op; where an op depends on
// the wall clock, the line handed to the Lean model (with the clock value the code actually saw)
// is written to -resolved.
package main

import (
	"bufio"
	"flag"
	"fmt"
	"math/rand"
	"os"
	"runtime"
	"sort"
	"strconv"
	"strings"
	"sync/atomic"
	"time"
)

type stream struct {
	name string
	gen  func(g *gen)
	run  func(r *runner)
}

var streams = map[string]*stream{}

func register(s *stream) { streams[s.name] = s }

// gen is the generator context: one PRNG, one output.
type gen struct {
	rnd   *rand.Rand
	tier  string
	scale int // 1 for quick, larger for thorough
	w     *bufio.Writer
	ncase int
}

func (g *gen) emit(format string, a ...interface{}) { fmt.Fprintf(g.w, format+"\n", a...) }
func (g *gen) newCase() {
	g.emit("#case %d", g.ncase)
	g.ncase++
}
func (g *gen) intn(n int) int            { return g.rnd.Intn(n) }
func (g *gen) chance(num, den int) bool  { return g.rnd.Intn(den) < num }
func (g *gen) pick(xs ...int64) int64    { return xs[g.rnd.Intn(len(xs))] }
func (g *gen) pickS(xs ...string) string { return xs[g.rnd.Intn(len(xs))] }

// runner is the real-code driver context.
type runner struct {
	in       *bufio.Scanner
	out      *bufio.Writer
	resolved *bufio.Writer
	// watchdog state: when the op being executed was handed out (0 = none / input exhausted) and its text
	opStart int64
	opLine  atomic.Value
}

// watchdog ends the run when an op does not complete: the real code is wedged (a deadlock, a reply that never
// comes).  The harness exits with code 3 after naming the op; everything answered so far has been flushed.
func (r *runner) watchdog(limit time.Duration) {
	for {
		time.Sleep(500 * time.Millisecond)
		st := atomic.LoadInt64(&r.opStart)
		if st != 0 && time.Since(time.Unix(0, st)) > limit {
			line, _ := r.opLine.Load().(string)
			if len(line) > 300 {
				line = line[:300]
			}
			fmt.Fprintf(os.Stderr, "fatal error: harness watchdog: op did not complete within %v: %s\n", limit, line)
			buf := make([]byte, 1<<16)
			n := runtime.Stack(buf, true)
			os.Stderr.Write(buf[:n])
			os.Exit(3)
		}
	}
}

func (r *runner) reply(format string, a ...interface{}) {
	fmt.Fprintf(r.out, format+"\n", a...)
	r.out.Flush()
}
func (r *runner) resolve(format string, a ...interface{}) {
	fmt.Fprintf(r.resolved, format+"\n", a...)
	r.resolved.Flush() // a crash of the real code must not lose the op that caused it
}

// next returns the next op line (case markers are echoed to both outputs and skipped); ok=false at EOF.
func (r *runner) next() (string, bool) {
	for r.in.Scan() {
		line := strings.TrimSpace(r.in.Text())
		if line == "" {
			continue
		}
		r.opLine.Store(line)
		atomic.StoreInt64(&r.opStart, time.Now().UnixNano())
		return line, true
	}
	atomic.StoreInt64(&r.opStart, 0) // streams that read everything first (zkloop) run their scenarios after this
	return "", false
}

func usage() {
	names := []string{}
	for n := range streams {
		names = append(names, n)
	}
	sort.Strings(names)
	fmt.Fprintf(os.Stderr, "usage: harness gen|run <stream> [flags]; streams: %s\n", strings.Join(names, " "))
	os.Exit(2)
}

// scratchDirs: temporary directories created by stream runners, removed when the run ends
var scratchDirs []string

func main() {
	if len(os.Args) < 3 {
		usage()
	}
	cmd, name := os.Args[1], os.Args[2]
	if cmd == "facts" {
		// harness facts -out <dir>
		fs := flag.NewFlagSet(cmd, flag.ExitOnError)
		out := fs.String("out", "", "output directory")
		_ = fs.Parse(os.Args[2:])
		if err := runFacts(*out); err != nil {
			fmt.Fprintln(os.Stderr, "facts:", err)
			os.Exit(1)
		}
		return
	}
	s, ok := streams[name]
	if !ok {
		usage()
	}
	fs := flag.NewFlagSet(cmd, flag.ExitOnError)
	seed := fs.Int64("seed", 1, "PRNG seed")
	tier := fs.String("tier", "quick", "quick|thorough")
	scale := fs.Int("scale", 0, "volume multiplier (default 1 quick, 20 thorough)")
	in := fs.String("in", "", "ops file")
	out := fs.String("out", "", "output file")
	resolved := fs.String("resolved", "", "resolved ops file (run only)")
	_ = fs.Parse(os.Args[3:])
	if *scale == 0 {
		*scale = 1
		if *tier == "thorough" {
			*scale = 20
		}
	}
	switch cmd {
	case "gen":
		f := os.Stdout
		if *out != "" {
			var err error
			f, err = os.Create(*out)
			if err != nil {
				panic(err)
			}
			defer f.Close()
		}
		g := &gen{rnd: rand.New(rand.NewSource(*seed)), tier: *tier, scale: *scale, w: bufio.NewWriterSize(f, 1<<20)}
		s.gen(g)
		g.w.Flush()
	case "run":
		fin, err := os.Open(*in)
		if err != nil {
			panic(err)
		}
		defer fin.Close()
		fout, err := os.Create(*out)
		if err != nil {
			panic(err)
		}
		defer fout.Close()
		fres, err := os.Create(*resolved)
		if err != nil {
			panic(err)
		}
		defer fres.Close()
		sc := bufio.NewScanner(fin)
		sc.Buffer(make([]byte, 1<<20), 1<<26)
		r := &runner{in: sc, out: bufio.NewWriterSize(fout, 1<<16), resolved: bufio.NewWriterSize(fres, 1<<20)}
		limit := 60 * time.Second
		if v, err := strconv.Atoi(os.Getenv("VERIF_OP_TIMEOUT")); err == nil && v > 0 {
			limit = time.Duration(v) * time.Second
		}
		go r.watchdog(limit)
		s.run(r)
		r.out.Flush()
		r.resolved.Flush()
		// scratch directories made while running (template files) are removed again
		_ = os.Chdir(os.TempDir())
		for _, d := range scratchDirs {
			_ = os.RemoveAll(d)
		}
	default:
		usage()
	}
}

func hexName(s string) string {
	if s == "" {
		return "-"
	}
	return fmt.Sprintf("%x", s)
}

func unhexName(s string) string {
	if s == "-" {
		return ""
	}
	var b []byte
	_, err := fmt.Sscanf(s, "%x", &b)
	if err != nil {
		panic("bad hex name " + s)
	}
	return string(b)
}
