// Command harness: generators and real-code drivers for the Burrow correspondence check.
//
//	harness gen <stream> -seed N -tier quick|thorough -out ops.txt
//	harness run <stream> -in ops.txt -out impl.out -resolved resolved.txt
//
// `gen` derives every random choice from one PRNG seeded with -seed.  `run` executes the real Burrow
// code in-process (build tag verif) and prints one canonical line per op; where an op depends on
// the wall clock, the line handed to the Lean model (with the clock value the code actually saw)
// is written to -resolved.
package main

import (
	"bufio"
	"flag"
	"fmt"
	"math/rand"
	"os"
	"sort"
	"strings"
)

type stream struct {
	name string
	gen  func(g *gen)
	run  func(r *runner)
}

var streams = map[string]*stream{}

func register(s *stream) { streams[s.name] = s }

// gen is the generator context: one PRNG, one output.
type gen struct {
	rnd   *rand.Rand
	tier  string
	scale int // 1 for quick, larger for thorough
	w     *bufio.Writer
	ncase int
}

func (g *gen) emit(format string, a ...interface{}) { fmt.Fprintf(g.w, format+"\n", a...) }
func (g *gen) newCase() {
	g.emit("#case %d", g.ncase)
	g.ncase++
}
func (g *gen) intn(n int) int           { return g.rnd.Intn(n) }
func (g *gen) chance(num, den int) bool { return g.rnd.Intn(den) < num }
func (g *gen) pick(xs ...int64) int64   { return xs[g.rnd.Intn(len(xs))] }
func (g *gen) pickS(xs ...string) string { return xs[g.rnd.Intn(len(xs))] }

// runner is the real-code driver context.
type runner struct {
	in       *bufio.Scanner
	out      *bufio.Writer
	resolved *bufio.Writer
}

func (r *runner) reply(format string, a ...interface{}) {
	fmt.Fprintf(r.out, format+"\n", a...)
	r.out.Flush()
}
func (r *runner) resolve(format string, a ...interface{}) {
	fmt.Fprintf(r.resolved, format+"\n", a...)
	r.resolved.Flush() // a crash of the real code must not lose the op that caused it
}

// next returns the next op line (case markers are echoed to both outputs and skipped); ok=false at EOF.
func (r *runner) next() (string, bool) {
	for r.in.Scan() {
		line := strings.TrimSpace(r.in.Text())
		if line == "" {
			continue
		}
		return line, true
	}
	return "", false
}

func usage() {
	names := []string{}
	for n := range streams {
		names = append(names, n)
	}
	sort.Strings(names)
	fmt.Fprintf(os.Stderr, "usage: harness gen|run <stream> [flags]; streams: %s\n", strings.Join(names, " "))
	os.Exit(2)
}

func main() {
	if len(os.Args) < 3 {
		usage()
	}
	cmd, name := os.Args[1], os.Args[2]
	if cmd == "facts" {
		// harness facts -out <dir>
		fs := flag.NewFlagSet(cmd, flag.ExitOnError)
		out := fs.String("out", "", "output directory")
		_ = fs.Parse(os.Args[2:])
		if err := runFacts(*out); err != nil {
			fmt.Fprintln(os.Stderr, "facts:", err)
			os.Exit(1)
		}
		return
	}
	s, ok := streams[name]
	if !ok {
		usage()
	}
	fs := flag.NewFlagSet(cmd, flag.ExitOnError)
	seed := fs.Int64("seed", 1, "PRNG seed")
	tier := fs.String("tier", "quick", "quick|thorough")
	scale := fs.Int("scale", 0, "volume multiplier (default 1 quick, 20 thorough)")
	in := fs.String("in", "", "ops file")
	out := fs.String("out", "", "output file")
	resolved := fs.String("resolved", "", "resolved ops file (run only)")
	_ = fs.Parse(os.Args[3:])
	if *scale == 0 {
		*scale = 1
		if *tier == "thorough" {
			*scale = 20
		}
	}
	switch cmd {
	case "gen":
		f := os.Stdout
		if *out != "" {
			var err error
			f, err = os.Create(*out)
			if err != nil {
				panic(err)
			}
			defer f.Close()
		}
		g := &gen{rnd: rand.New(rand.NewSource(*seed)), tier: *tier, scale: *scale, w: bufio.NewWriterSize(f, 1<<20)}
		s.gen(g)
		g.w.Flush()
	case "run":
		fin, err := os.Open(*in)
		if err != nil {
			panic(err)
		}
		defer fin.Close()
		fout, err := os.Create(*out)
		if err != nil {
			panic(err)
		}
		defer fout.Close()
		fres, err := os.Create(*resolved)
		if err != nil {
			panic(err)
		}
		defer fres.Close()
		sc := bufio.NewScanner(fin)
		sc.Buffer(make([]byte, 1<<20), 1<<26)
		r := &runner{in: sc, out: bufio.NewWriterSize(fout, 1<<16), resolved: bufio.NewWriterSize(fres, 1<<20)}
		s.run(r)
		r.out.Flush()
		r.resolved.Flush()
	default:
		usage()
	}
}

func hexName(s string) string {
	if s == "" {
		return "-"
	}
	return fmt.Sprintf("%x", s)
}

func unhexName(s string) string {
	if s == "-" {
		return ""
	}
	var b []byte
	_, err := fmt.Sscanf(s, "%x", &b)
	if err != nil {
		panic("bad hex name " + s)
	}
	return string(b)
}
