package main

import (
	"errors"
	"fmt"
	"github.com/spf13/viper"
	"sort"
	"strings"
	"sync"
	"time"

	"github.com/linkedin/go-zk"
	"go.uber.org/zap"

	"github.com/linkedin/Burrow/core/protocol"
	"github.com/linkedin/Burrow/core/verifhook"
)

// Stream "zkloop": the real manageEvalLoop + sendEvaluatorRequests + the real zookeeper coordinator's session
// handling against a scripted fake Zookeeper client/lock, in real time (C15).
//
//	Z run fails=<k,k,…> wait=<ms,…> down=<ms,…> early=<0|1> groups=<n> mi=<s> tail=<ms>
//	  cycle i: Lock() fails k_i times, then succeeds; wait_i ms later the session expires (StateExpired event);
//	  down_i ms later it reconnects (StateConnected).  early=1: the expiry of the (single) cycle is delivered
//	  INSIDE the successful Lock() call, before it returns (the lost wake-up).  tail: observation time after
//	  the last scripted event.  stall=<ms> (optional): nobody reads the evaluator channel for the first <ms> of the
//	  run (back-pressure: the evaluator is busy) — the requests made meanwhile are taken afterwards.
//
// Output: locks=<Lock calls> unlocks=<Unlock calls> gap=<0|stuck> live=<owned windows with an evaluation> pace=<ok|viol>
//   gap counts evaluation requests that appear more than 60 ms after an expiry was broadcast and before the
//   next successful Lock() — they are issued without the lock.

func init() { register(&stream{name: "zkloop", gen: genZkLoop, run: runZkLoop}) }

type zkScript struct {
	fails, wait, down []int
	early             bool
	groups            int
	mi                int64
	tail              int
	stall             int
}

type fakeZk struct {
	mu        sync.Mutex
	sc        *zkScript
	cycle     int
	failsLeft int
	lockCalls int
	unlocks   int
	lockOK    []time.Time // successful acquisitions
	expired   []time.Time // broadcasts
	lockAt    []time.Time // every Lock() call
	connAt    []time.Time // when the reconnection (StateConnected) of cycle i was delivered
	events    chan zk.Event
	block     chan struct{}
	app       *protocol.ApplicationContext
}

func (f *fakeZk) Close() {}
func (f *fakeZk) ChildrenW(string) ([]string, *zk.Stat, <-chan zk.Event, error) {
	return nil, nil, nil, errors.New("not scripted")
}
func (f *fakeZk) GetW(string) ([]byte, *zk.Stat, <-chan zk.Event, error) {
	return nil, nil, nil, errors.New("not scripted")
}
func (f *fakeZk) Exists(string) (bool, *zk.Stat, error) { return true, nil, nil }
func (f *fakeZk) ExistsW(string) (bool, *zk.Stat, <-chan zk.Event, error) {
	return true, nil, nil, nil
}
func (f *fakeZk) Create(p string, _ []byte, _ int32, _ []zk.ACL) (string, error) { return p, nil }
func (f *fakeZk) NewLock(string) protocol.ZookeeperLock                          { return (*fakeZkLock)(f) }

type fakeZkLock fakeZk

func (l *fakeZkLock) Lock() error {
	f := (*fakeZk)(l)
	f.mu.Lock()
	f.lockCalls++
	f.lockAt = append(f.lockAt, time.Now())
	if f.cycle >= len(f.sc.fails) {
		f.mu.Unlock()
		<-f.block // script exhausted: the lock is never granted again
		return errors.New("scenario over")
	}
	if f.failsLeft > 0 {
		f.failsLeft--
		f.mu.Unlock()
		return errors.New("scripted lock failure")
	}
	cycle := f.cycle
	f.cycle++
	if f.cycle < len(f.sc.fails) {
		f.failsLeft = f.sc.fails[f.cycle]
	}
	f.mu.Unlock()
	if f.sc.early {
		// the session expires while Lock() is returning: delivered and handled before the caller goes on
		f.mu.Lock()
		f.lockOK = append(f.lockOK, time.Now())
		f.expired = append(f.expired, time.Now())
		f.mu.Unlock()
		f.events <- zk.Event{Type: zk.EventSession, State: zk.StateExpired}
		time.Sleep(30 * time.Millisecond)
		go func() {
			time.Sleep(time.Duration(f.sc.down[cycle]) * time.Millisecond)
			f.events <- zk.Event{Type: zk.EventSession, State: zk.StateConnected}
		}()
		return nil
	}
	f.mu.Lock()
	f.lockOK = append(f.lockOK, time.Now())
	f.mu.Unlock()
	go func() {
		time.Sleep(time.Duration(f.sc.wait[cycle]) * time.Millisecond)
		f.mu.Lock()
		f.expired = append(f.expired, time.Now())
		f.mu.Unlock()
		if f.sc.down[cycle] == 0 {
			// a flap: the zookeeper coordinator handles the expiry and the reconnection before the woken manager
			// is scheduled — emulated by doing exactly what its main loop does for the two events, back to back
			f.app.ZookeeperConnected = false
			f.app.ZookeeperExpired.Broadcast()
			f.app.ZookeeperConnected = true
			return
		}
		f.events <- zk.Event{Type: zk.EventSession, State: zk.StateExpired}
		// what the real client reports while it builds the new session: none of these means "connected"
		f.events <- zk.Event{Type: zk.EventSession, State: zk.StateDisconnected}
		f.events <- zk.Event{Type: zk.EventSession, State: zk.StateConnecting}
		time.Sleep(time.Duration(f.sc.down[cycle]) * time.Millisecond)
		f.mu.Lock()
		f.connAt = append(f.connAt, time.Now())
		f.mu.Unlock()
		f.events <- zk.Event{Type: zk.EventSession, State: zk.StateConnected}
		f.events <- zk.Event{Type: zk.EventSession, State: zk.StateHasSession}
	}()
	return nil
}

func (l *fakeZkLock) Unlock() error {
	f := (*fakeZk)(l)
	f.mu.Lock()
	f.unlocks++
	f.mu.Unlock()
	return nil
}

func parseIntList(s string) []int {
	var out []int
	if s == "-" || s == "" {
		return out
	}
	for _, x := range strings.Split(s, ",") {
		out = append(out, int(atoi(x)))
	}
	return out
}

func runZkScenario(line string) string {
	kv := kvFields(line)
	sc := &zkScript{fails: parseIntList(kv["fails"]), wait: parseIntList(kv["wait"]), down: parseIntList(kv["down"]), early: kv["early"] == "1",
		groups: int(atoi(kv["groups"])), mi: atoi(kv["mi"]), tail: int(atoi(kv["tail"]))}
	if v, ok := kv["stall"]; ok {
		sc.stall = int(atoi(v))
	}
	fake := &fakeZk{sc: sc, events: make(chan zk.Event, 16), block: make(chan struct{})}
	if len(sc.fails) > 0 {
		fake.failsLeft = sc.fails[0]
	}
	app := &protocol.ApplicationContext{Logger: zap.NewNop(), EvaluatorChannel: make(chan *protocol.EvaluatorRequest), ZookeeperRoot: "/burrow"}
	fake.app = app
	if err := verifhook.StartZookeeper(app, fake, fake.events); err != nil {
		return "bad-op"
	}
	// one recording module (settings under notifier.zm, set once in runZkLoop): group g0 is put into an announced incident
	// before the evaluation loops start; after the scenario — lock lost and regained any number of times — its next
	// result must still belong to that incident (same id, same start)
	var sink []recNote
	nc := verifhook.NewNotifier(app, map[string]verifhook.NotifierModule{"zm": &recModule{name: "zm", sink: &sink}}, sc.mi)
	for g := 0; g < sc.groups; g++ {
		nc.AddGroup("c0", fmt.Sprintf("g%d", g), time.Hour)
	}
	if sc.groups > 0 {
		nc.Deliver(&protocol.ConsumerGroupStatus{Cluster: "c0", Group: "g0", Status: protocol.StatusError})
	}
	type evalSeen struct {
		group string
		at    time.Time
	}
	var evMu sync.Mutex
	var evals []evalSeen
	stop := make(chan struct{})
	began := time.Now()
	go func() {
		if sc.stall > 0 {
			select {
			case <-time.After(time.Duration(sc.stall) * time.Millisecond):
			case <-stop:
				return
			}
		}
		for {
			select {
			case req := <-app.EvaluatorChannel:
				evMu.Lock()
				evals = append(evals, evalSeen{req.Group, time.Now()})
				evMu.Unlock()
			case <-stop:
				return
			}
		}
	}()
	nc.StartEvalLoops()
	// total scripted duration
	total := 150
	for i := range sc.fails {
		total += (sc.fails[i] + 1) * 110
		if !sc.early {
			total += sc.wait[i]
		}
		total += sc.down[i] + 230
	}
	time.Sleep(time.Duration(total+sc.tail) * time.Millisecond)
	nc.StopEvalLoops()
	close(stop)
	fake.mu.Lock()
	locks, unlocks := fake.lockCalls, fake.unlocks
	lockOK := append([]time.Time{}, fake.lockOK...)
	expired := append([]time.Time{}, fake.expired...)
	fake.mu.Unlock()
	evMu.Lock()
	defer evMu.Unlock()
	// owned windows: [lockOK_i, expired_i + 60 ms]
	gap, live := 0, 0
	for i, ok := range lockOK {
		end := time.Now()
		if i < len(expired) {
			end = expired[i].Add(60 * time.Millisecond)
		}
		n := 0
		for _, e := range evals {
			if !e.at.Before(ok) && e.at.Before(end) {
				n++
			}
		}
		if n > 0 && i == 0 && end.Sub(ok) >= 100*time.Millisecond {
			live++ // the first owned window: every group is due
		}
	}
	for _, e := range evals {
		owned := false
		for i, ok := range lockOK {
			end := time.Now()
			if i < len(expired) {
				end = expired[i].Add(60 * time.Millisecond)
			}
			if !e.at.Before(ok) && e.at.Before(end) {
				owned = true
			}
		}
		if !owned {
			gap++
		}
	}
	// pacing per group
	pace := "ok"
	byGroup := map[string][]time.Time{}
	for _, e := range evals {
		byGroup[e.group] = append(byGroup[e.group], e.at)
	}
	for _, ts := range byGroup {
		sort.Slice(ts, func(i, j int) bool { return ts[i].Before(ts[j]) })
		for i := 1; i < len(ts); i++ {
			// a request made during the stall is taken late: the one after it may follow by that much sooner
			if ts[i].Sub(ts[i-1]) < time.Duration(sc.mi)*time.Second-time.Duration(30+sc.stall)*time.Millisecond {
				pace = "viol"
			}
		}
	}
	// however busy the evaluator is, a group is requested once per interval: over the whole run at most one request
	// per started interval (+1 for a request made just before the end)
	burst := "ok"
	elapsed := time.Since(began)
	for _, ts := range byGroup {
		if int64(len(ts)) > int64(elapsed/(time.Duration(sc.mi)*time.Second))+2 {
			burst = "viol"
		}
	}
	gs := "0"
	if gap > 0 {
		gs = "stuck"
	}
	// Lock() calls made while the session was known to be gone: after an expiry and well before the reconnection
	prelock := 0
	fake.mu.Lock()
	for i, c := range fake.connAt {
		// connAt[i] belongs to the i-th expiry that went through the event path (flaps and in-Lock expiries add none)
		var exp time.Time
		for _, e := range fake.expired {
			if !e.After(c) {
				exp = e
			}
		}
		_ = i
		for _, t := range fake.lockAt {
			if t.After(exp) && t.Before(c.Add(-30*time.Millisecond)) {
				prelock++
			}
		}
	}
	fake.mu.Unlock()
	inc := "-"
	if sc.groups > 0 {
		nc.Deliver(&protocol.ConsumerGroupStatus{Cluster: "c0", Group: "g0", Status: protocol.StatusError})
		inc = "changed"
		if len(sink) == 2 && sink[0].id != "" && sink[0].id == sink[1].id && sink[0].start.Equal(sink[1].start) && !sink[0].start.IsZero() {
			inc = "same"
		}
	}
	return fmt.Sprintf("locks=%d unlocks=%d gap=%s live=%d pace=%s prelock=%d burst=%s inc=%s", locks, unlocks, gs, live, pace, prelock, burst, inc)
}

func runZkLoop(r *runner) {
	var lines []string
	for {
		line, ok := r.next()
		if !ok {
			break
		}
		lines = append(lines, line)
	}
	// the recording module's settings (viper is process-global and not safe for concurrent writes: set before the
	// scenarios run in parallel): every result is notified, so that the incident's identity can be read off
	viper.Set("notifier.zm.threshold", 1)
	viper.Set("notifier.zm.send-interval", 0)
	viper.Set("notifier.zm.send-once", false)
	viper.Set("notifier.zm.send-close", true)
	results := make([]string, len(lines))
	sem := make(chan struct{}, 16)
	var wg sync.WaitGroup
	for i, line := range lines {
		if strings.HasPrefix(line, "#") {
			results[i] = line
			continue
		}
		if !strings.HasPrefix(line, "Z run ") {
			results[i] = "bad-op"
			continue
		}
		wg.Add(1)
		sem <- struct{}{}
		go func(i int, line string) {
			defer wg.Done()
			defer func() { <-sem }()
			results[i] = runZkScenario(line)
		}(i, line)
	}
	wg.Wait()
	for i, line := range lines {
		r.resolve("%s", line)
		r.reply("%s", results[i])
	}
}

func genZkLoop(g *gen) {
	n := 14 * g.scale
	for i := 0; i < n; i++ {
		g.newCase()
		if i%7 == 3 {
			// the lost wake-up: the expiry is delivered inside the successful Lock()
			g.emit("Z run fails=%d wait=0 down=%d early=1 groups=%d mi=1 tail=700", g.intn(3), int(g.pick(100, 250)), 1+g.intn(3))
			continue
		}
		if i%7 == 5 {
			// back-pressure: the evaluator does not take requests for a while after the lock is won
			g.emit("Z run fails=0 wait=%d down=%d early=0 groups=%d mi=1 tail=450 stall=%d", int(g.pick(600, 1250)), int(g.pick(30, 150)), 1+g.intn(3), int(g.pick(120, 250)))
			continue
		}
		if i%7 == 1 {
			// the lock is refused several times in a row before it is won: nothing may be evaluated meanwhile
			g.emit("Z run fails=%d wait=%d down=%d early=0 groups=%d mi=1 tail=450", int(g.pick(3, 4, 5)), int(g.pick(350, 600)), int(g.pick(30, 150)), 1+g.intn(3))
			continue
		}
		if i%7 == 6 {
			// a long time without the lock (several intervals) between two owned windows: on re-acquisition every group is
			// requested once, not once per missed interval
			g.emit("Z run fails=0,%d wait=%d,%d down=%d,%d early=0 groups=%d mi=1 tail=450", g.intn(2), int(g.pick(350, 600)), int(g.pick(600, 800)), int(g.pick(2300, 3400)), int(g.pick(30, 150)), 1+g.intn(2))
			continue
		}
		cycles := 1 + g.intn(3)
		var fails, wait, down []string
		for c := 0; c < cycles; c++ {
			fails = append(fails, fmt.Sprint(g.intn(3)))
			wait = append(wait, fmt.Sprint(g.pick(200, 350, 600, 1250)))
			down = append(down, fmt.Sprint(g.pick(0, 0, 1, 30, 150, 400)))
		}
		g.emit("Z run fails=%s wait=%s down=%s early=0 groups=%d mi=1 tail=450", strings.Join(fails, ","), strings.Join(wait, ","), strings.Join(down, ","), 1+g.intn(3))
	}
}
