package main

import (
	"fmt"
	"go/ast"
	"go/token"
	"path/filepath"
	"sort"
	"strings"
)

// F1: the lock skeleton of the storage handlers (core/internal/storage/inmemory.go): for every handler
//     registered in requestTypeMap, every control-flow path (if/else, early return, loop body taken or not,
//     same-package helpers inlined) as the sequence of lock operations and of accesses to the shared
//     locations  broker (clusterMap.broker), cmap (clusterMap.consumer), topics (<group>.topics and what
//     hangs off it), lastCommit (<group>.lastCommit).
// F2: the routing switch of mainLoop (request type -> hashed on cluster+group | any worker) and the
//     request type -> handler table.
// By go/ast over /repo's working tree; Props/C08.lean checks the discipline over what is extracted.

func init() { extraFacts = append(extraFacts, factsLocks) }

type lockEv struct {
	kind  string // acq | rel | acc
	name  string // lock or location
	write bool   // acq: write mode; acc: write access
}

type lockPath struct {
	evs      []lockEv
	deferred []lockEv
	done     bool
}

type lockExtractor struct {
	funcs map[string]*ast.FuncDecl
	depth int
}

var lockNames = map[string]string{"brokerLock": "broker", "consumerLock": "cmap", "lock": "group"}

func locOf(e ast.Expr) string {
	if s, ok := e.(*ast.SelectorExpr); ok {
		switch s.Sel.Name {
		case "broker":
			if id, ok := s.X.(*ast.Ident); ok && id.Name == "clusterMap" {
				return "broker"
			}
		case "consumer":
			if id, ok := s.X.(*ast.Ident); ok && id.Name == "clusterMap" {
				return "cmap"
			}
		case "topics":
			return "topics"
		case "lastCommit":
			return "lastCommit"
		}
	}
	return ""
}

// the location an lvalue / delete target / range operand is rooted in
func rootLoc(e ast.Expr) string {
	for {
		if l := locOf(e); l != "" {
			return l
		}
		switch x := e.(type) {
		case *ast.IndexExpr:
			e = x.X
		case *ast.SelectorExpr:
			e = x.X
		case *ast.ParenExpr:
			e = x.X
		case *ast.StarExpr:
			e = x.X
		default:
			return ""
		}
	}
}

func (x *lockExtractor) reads(e ast.Node, skip ast.Expr) []lockEv {
	var out []lockEv
	if e == nil {
		return nil
	}
	ast.Inspect(e, func(n ast.Node) bool {
		if n == nil {
			return false
		}
		if ex, ok := n.(ast.Expr); ok {
			if ex == skip {
				return false
			}
			if l := locOf(ex); l != "" {
				out = append(out, lockEv{"acc", l, false})
				return false
			}
		}
		if _, ok := n.(*ast.FuncLit); ok {
			return true
		}
		return true
	})
	return out
}

func lockCall(call *ast.CallExpr) (lockEv, bool) {
	sel, ok := call.Fun.(*ast.SelectorExpr)
	if !ok {
		return lockEv{}, false
	}
	recv, ok := sel.X.(*ast.SelectorExpr)
	if !ok {
		return lockEv{}, false
	}
	lock, ok := lockNames[recv.Sel.Name]
	if !ok {
		return lockEv{}, false
	}
	switch sel.Sel.Name {
	case "Lock":
		return lockEv{"acq", lock, true}, true
	case "RLock":
		return lockEv{"acq", lock, false}, true
	case "Unlock", "RUnlock":
		return lockEv{"rel", lock, false}, true
	}
	return lockEv{}, false
}

func (x *lockExtractor) calleeName(call *ast.CallExpr) string {
	switch f := call.Fun.(type) {
	case *ast.Ident:
		return f.Name
	case *ast.SelectorExpr:
		if id, ok := f.X.(*ast.Ident); ok && id.Name == "module" {
			return f.Sel.Name
		}
	}
	return ""
}

// exprPaths: the event sequences evaluating an expression can produce (helpers inlined)
func (x *lockExtractor) exprPaths(e ast.Expr) [][]lockEv {
	if e == nil {
		return [][]lockEv{nil}
	}
	var calls []*ast.CallExpr
	ast.Inspect(e, func(n ast.Node) bool {
		if c, ok := n.(*ast.CallExpr); ok {
			if name := x.calleeName(c); name != "" && x.funcs[name] != nil && x.depth < 3 {
				calls = append(calls, c)
			}
		}
		return true
	})
	base := [][]lockEv{nil}
	// `delete(m, k)` writes m
	if c, ok := e.(*ast.CallExpr); ok {
		if id, ok := c.Fun.(*ast.Ident); ok && id.Name == "delete" && len(c.Args) == 2 {
			if l := rootLoc(c.Args[0]); l != "" {
				return [][]lockEv{append(x.reads(c.Args[1], nil), lockEv{"acc", l, true})}
			}
		}
	}
	base[0] = x.reads(e, nil)
	for _, c := range calls {
		x.depth++
		sub := x.stmtsPaths(x.funcs[x.calleeName(c)].Body.List)
		x.depth--
		var next [][]lockEv
		for _, b := range base {
			for _, s := range sub {
				evs := append(append([]lockEv{}, b...), s.evs...)
				// the helper's deferred releases run when it returns
				for i := len(s.deferred) - 1; i >= 0; i-- {
					evs = append(evs, s.deferred[i])
				}
				next = append(next, evs)
			}
		}
		base = next
	}
	return base
}

func extend(ps []lockPath, alts [][]lockEv) []lockPath {
	var out []lockPath
	for _, p := range ps {
		if p.done {
			out = append(out, p)
			continue
		}
		for _, a := range alts {
			q := lockPath{evs: append(append([]lockEv{}, p.evs...), a...), deferred: append([]lockEv{}, p.deferred...)}
			out = append(out, q)
		}
	}
	return out
}

func (x *lockExtractor) stmtsPaths(stmts []ast.Stmt) []lockPath {
	ps := []lockPath{{}}
	for _, st := range stmts {
		ps = x.stmtPaths(ps, st)
		if len(ps) > 400 {
			ps = ps[:400]
		}
	}
	return ps
}

func (x *lockExtractor) branch(ps []lockPath, bodies ...[]ast.Stmt) []lockPath {
	var out []lockPath
	for _, p := range ps {
		if p.done {
			out = append(out, p)
			continue
		}
		for _, body := range bodies {
			sub := x.stmtsPaths(body)
			for _, s := range sub {
				out = append(out, lockPath{evs: append(append([]lockEv{}, p.evs...), s.evs...), deferred: append(append([]lockEv{}, p.deferred...), s.deferred...), done: s.done})
			}
		}
	}
	return out
}

func (x *lockExtractor) stmtPaths(ps []lockPath, st ast.Stmt) []lockPath {
	switch s := st.(type) {
	case *ast.ExprStmt:
		if call, ok := s.X.(*ast.CallExpr); ok {
			if ev, ok := lockCall(call); ok {
				return extend(ps, [][]lockEv{{ev}})
			}
		}
		return extend(ps, x.exprPaths(s.X))
	case *ast.DeferStmt:
		if ev, ok := lockCall(s.Call); ok {
			var out []lockPath
			for _, p := range ps {
				if !p.done {
					p.deferred = append(append([]lockEv{}, p.deferred...), ev)
				}
				out = append(out, p)
			}
			return out
		}
		return ps
	case *ast.AssignStmt:
		for _, r := range s.Rhs {
			ps = extend(ps, x.exprPaths(r))
		}
		var w []lockEv
		for _, l := range s.Lhs {
			if loc := rootLoc(l); loc != "" {
				w = append(w, lockEv{"acc", loc, true})
			}
			// index expressions inside the lvalue are reads
			if ix, ok := l.(*ast.IndexExpr); ok {
				w = append(w, x.reads(ix.Index, nil)...)
			}
		}
		return extend(ps, [][]lockEv{w})
	case *ast.IncDecStmt:
		if loc := rootLoc(s.X); loc != "" {
			return extend(ps, [][]lockEv{{{"acc", loc, true}}})
		}
		return ps
	case *ast.ReturnStmt:
		for _, r := range s.Results {
			ps = extend(ps, x.exprPaths(r))
		}
		var out []lockPath
		for _, p := range ps {
			p.done = true
			out = append(out, p)
		}
		return out
	case *ast.IfStmt:
		if s.Init != nil {
			ps = x.stmtPaths(ps, s.Init)
		}
		ps = extend(ps, x.exprPaths(s.Cond))
		var elseBody []ast.Stmt
		switch e := s.Else.(type) {
		case *ast.BlockStmt:
			elseBody = e.List
		case *ast.IfStmt:
			elseBody = []ast.Stmt{e}
		}
		return x.branch(ps, s.Body.List, elseBody)
	case *ast.RangeStmt:
		ps = extend(ps, x.exprPaths(s.X))
		return x.branch(ps, s.Body.List, nil)
	case *ast.ForStmt:
		if s.Init != nil {
			ps = x.stmtPaths(ps, s.Init)
		}
		if s.Cond != nil {
			ps = extend(ps, x.exprPaths(s.Cond))
		}
		return x.branch(ps, s.Body.List, nil)
	case *ast.BlockStmt:
		return x.branch(ps, s.List)
	case *ast.SwitchStmt:
		if s.Init != nil {
			ps = x.stmtPaths(ps, s.Init)
		}
		if s.Tag != nil {
			ps = extend(ps, x.exprPaths(s.Tag))
		}
		var bodies [][]ast.Stmt
		hasDefault := false
		for _, c := range s.Body.List {
			cc := c.(*ast.CaseClause)
			if cc.List == nil {
				hasDefault = true
			}
			bodies = append(bodies, cc.Body)
		}
		if !hasDefault {
			bodies = append(bodies, nil)
		}
		return x.branch(ps, bodies...)
	case *ast.DeclStmt, *ast.EmptyStmt, *ast.BranchStmt, *ast.GoStmt, *ast.SendStmt:
		return ps
	}
	return ps
}

func renderEv(e lockEv) string {
	switch e.kind {
	case "acq":
		return fmt.Sprintf(".acq %s %s", leanStr(e.name), map[bool]string{true: ".w", false: ".r"}[e.write])
	case "rel":
		return fmt.Sprintf(".rel %s", leanStr(e.name))
	}
	return fmt.Sprintf(".acc %s %v", leanStr(e.name), e.write)
}

func factsLocks(fo *factsOut) error {
	_, files, err := parseNonTestFiles(filepath.Join(repoDir(), "core/internal/storage"))
	if err != nil {
		return err
	}
	x := &lockExtractor{funcs: map[string]*ast.FuncDecl{}}
	var mainLoop, worker *ast.FuncDecl
	for _, f := range files {
		for _, d := range f.Decls {
			if fn, ok := d.(*ast.FuncDecl); ok && fn.Body != nil {
				x.funcs[fn.Name.Name] = fn
				if fn.Name.Name == "mainLoop" {
					mainLoop = fn
				}
				if fn.Name.Name == "requestWorker" {
					worker = fn
				}
			}
		}
	}
	// request type -> handler (requestTypeMap literal in requestWorker)
	handlerOf := map[string]string{}
	if worker != nil {
		ast.Inspect(worker.Body, func(n ast.Node) bool {
			if kv, ok := n.(*ast.KeyValueExpr); ok {
				k, v := exprName(kv.Key), exprName(kv.Value)
				if strings.HasPrefix(k, "protocol.Storage") && strings.HasPrefix(v, "module.") {
					handlerOf[strings.TrimPrefix(k, "protocol.")] = strings.TrimPrefix(v, "module.")
				}
			}
			return true
		})
	}
	// routing switch: a case whose body mentions ChecksumString64 is hashed, one with rand is any-worker
	routing := map[string]string{}
	if mainLoop != nil {
		ast.Inspect(mainLoop.Body, func(n ast.Node) bool {
			cc, ok := n.(*ast.CaseClause)
			if !ok || cc.List == nil {
				return true
			}
			kind := "other"
			for _, st := range cc.Body {
				ast.Inspect(st, func(m ast.Node) bool {
					if c, ok := m.(*ast.CallExpr); ok {
						nm := exprName(c.Fun)
						if strings.Contains(nm, "ChecksumString64") {
							kind = "hashed"
							// the key must be cluster+group
							if len(c.Args) == 1 && exprName0(c.Args[0]) != "r.Cluster+r.Group" {
								kind = "hashed-on-" + exprName0(c.Args[0])
							}
						} else if strings.HasPrefix(nm, "rand.") && kind == "other" {
							kind = "any"
						}
					}
					return true
				})
			}
			for _, e := range cc.List {
				routing[strings.TrimPrefix(exprName(e), "protocol.")] = kind
			}
			return true
		})
	}
	var b strings.Builder
	b.WriteString("/- GENERATED by `harness facts` from /repo's working tree on every run — do not edit.\n")
	b.WriteString("   F1: lock skeleton of the storage handlers (every control-flow path).  F2: routing and handler tables. -/\n")
	b.WriteString("import BurrowVerif.Model.Locks\n\nnamespace Burrow.Generated\nopen Burrow.Locks\n\n")
	var types []string
	for t := range handlerOf {
		types = append(types, t)
	}
	sort.Strings(types)
	plain := map[string]interface{}{}
	b.WriteString("def storageHandlers : List (String × String × String × List (List Ev)) := [\n")
	for i, t := range types {
		h := handlerOf[t]
		var paths []string
		var plainPaths []string
		seen := map[string]bool{}
		if fn := x.funcs[h]; fn != nil {
			for _, p := range x.stmtsPaths(fn.Body.List) {
				evs := append([]lockEv{}, p.evs...)
				for j := len(p.deferred) - 1; j >= 0; j-- {
					evs = append(evs, p.deferred[j])
				}
				var es []string
				for _, e := range evs {
					es = append(es, renderEv(e))
				}
				s := "[" + strings.Join(es, ", ") + "]"
				if !seen[s] {
					seen[s] = true
					paths = append(paths, "      "+s)
					plainPaths = append(plainPaths, s)
				}
			}
		}
		sep := ","
		if i == len(types)-1 {
			sep = ""
		}
		fmt.Fprintf(&b, "  (%s, %s, %s, [\n%s])%s\n", leanStr(t), leanStr(h), leanStr(routing[t]), strings.Join(paths, ",\n"), sep)
		plain[t] = map[string]interface{}{"handler": h, "routing": routing[t], "paths": plainPaths}
	}
	b.WriteString("]\n\nend Burrow.Generated\n")
	fo.facts["F1_F2_storage_handlers"] = plain
	return fo.write("StorageLocks.lean", b.String())
}

func exprName0(e ast.Expr) string {
	switch x := e.(type) {
	case *ast.BinaryExpr:
		if x.Op == token.ADD {
			return exprName0(x.X) + "+" + exprName0(x.Y)
		}
	}
	return exprName(e)
}
