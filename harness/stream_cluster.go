package main

import (
	"fmt"
	"io"
	"os"
	"sort"
	"strconv"
	"strings"
	"sync"
	"time"

	"github.com/IBM/sarama"
	"github.com/spf13/viper"
	"go.uber.org/zap"

	"github.com/linkedin/Burrow/core/protocol"
	"github.com/linkedin/Burrow/core/verifhook"
)

// Stream "cluster": refresh cycles of the real KafkaCluster.getOffsets against a scripted fake Kafka (C11, C12).
//
//	K init
//	K cycle tick=<0|1> meta=<M> terr=<0|1> perr=<topic|-> lq=<t.p:b|t.p:-,…|-> bf=<b,…|-> pe=<t.p,…|-> off=<base>
//	   M = topics in the order Topics() lists them: t0:0.1,1.2,2.-;t1:0.3   (partition.leaderAtRefresh, "-" = none); "-" = no topics
//	   lq = leader lookups that answer differently while the requests are built; bf = brokers whose call fails;
//	   pe = partitions answered with an error code; offset of (t,p) = base*1000 + 10*index(t) + p
//
// Output: refresh= deletes= asked= updates= fm=

func init() { register(&stream{name: "cluster", gen: genCluster, run: runCluster}) }

var clTopics = []string{"t0", "t1", "t2", "t3"}

type clPart struct {
	id     int
	leader int // -1 none
}

func genCluster(g *gen) {
	n := 500 * g.scale
	for i := 0; i < n; i++ {
		g.newCase()
		if i%6 == 1 {
			g.emit("K init real")
		} else {
			g.emit("K init")
		}
		if i%10 == 3 {
			// the module's real Configure: each refresh interval set or left to its default
			opt := func(vals ...int64) string {
				if g.chance(1, 2) {
					return "-"
				}
				return strconv.FormatInt(g.pick(vals...), 10)
			}
			g.emit("K conf or=%s tr=%s gr=%s", opt(1, 5, 10, 30), opt(1, 60, 120), opt(0, 1, 300))
		}
		// every third case drives the module's REAL mainLoop: ticks on the three ticker channels instead of direct calls
		loopMode := i%3 == 2
		// every sixth case runs against a REAL sarama.Client connected to sarama's mock brokers, through Burrow's real
		// shim: only what a real cluster can do is scripted (no failing client calls; leaders as the metadata says)
		realMode := i%6 == 1
		if loopMode {
			g.emit("K loop")
		}
		// the cluster's true layout evolves over the cycles
		layout := map[string][]clPart{}
		order := []string{}
		addTopic := func(t string) {
			np := g.intn(5)
			if i%6 == 1 && np == 0 {
				np = 1 // a real broker does not list a topic without partitions
			}
			ps := make([]clPart, np)
			for k := range ps {
				ps[k] = clPart{k, 1 + g.intn(3)}
				if g.chance(1, 6) {
					ps[k].leader = -1
				}
			}
			layout[t] = ps
			order = append(order, t)
		}
		for _, t := range clTopics[:g.intn(4)] {
			addTopic(t)
		}
		cycles := 1 + g.intn(7)
		for c := 0; c < cycles; c++ {
			// mutate the layout
			if g.chance(1, 3) && len(order) > 0 {
				k := g.intn(len(order))
				delete(layout, order[k])
				order = append(order[:k], order[k+1:]...)
			}
			if g.chance(1, 3) {
				t := clTopics[g.intn(len(clTopics))]
				if _, ok := layout[t]; !ok {
					addTopic(t)
				}
			}
			if g.chance(1, 4) && len(order) > 0 {
				t := order[g.intn(len(order))]
				for k := range layout[t] {
					if g.chance(1, 2) {
						layout[t][k].leader = -1 // topic losing leaders
					} else {
						layout[t][k].leader = 1 + g.intn(3)
					}
				}
			}
			var ms []string
			for _, t := range order {
				var ps []string
				for _, p := range layout[t] {
					l := "-"
					if p.leader >= 0 {
						l = strconv.Itoa(p.leader)
					}
					ps = append(ps, fmt.Sprintf("%d.%s", p.id, l))
				}
				ms = append(ms, t+":"+strings.Join(ps, ","))
			}
			meta := "-"
			if len(ms) > 0 {
				meta = strings.Join(ms, ";")
			}
			terr, perr := 0, "-"
			if g.chance(1, 8) {
				terr = 1
			}
			if g.chance(1, 6) && len(order) > 0 {
				perr = order[g.intn(len(order))]
			}
			pickTP := func() string {
				t := clTopics[g.intn(len(clTopics))]
				return fmt.Sprintf("%s.%d", t, g.intn(5))
			}
			lq := "-"
			if g.chance(1, 4) {
				var xs []string
				for k := 0; k < 1+g.intn(2); k++ {
					l := "-"
					if g.chance(1, 2) {
						l = strconv.Itoa(1 + g.intn(3))
					}
					xs = append(xs, pickTP()+":"+l)
				}
				lq = strings.Join(xs, ",")
			}
			bf := "-"
			if g.chance(1, 4) {
				bf = strconv.Itoa(1 + g.intn(3))
			}
			pe := "-"
			if g.chance(1, 4) {
				var xs []string
				for k := 0; k < 1+g.intn(2); k++ {
					xs = append(xs, pickTP())
				}
				pe = strings.Join(xs, ",")
			}
			tick := 0
			if g.chance(1, 3) {
				tick = 1
			}
			// the Kafka error code partitions in `pe` are answered with (any non-zero code is an error)
			pec := g.pick(6, 6, 3, 5, 9, 7, 1, 56, 78, 74, -1)
			if realMode && i%480 == 1 && c == 0 {
				// the whole module for real: Configure, Start (connects by itself, fetches once, starts the tickers and the
				// main loop), one offset tick of the real one-second ticker, Stop
				g.emit("K start meta=%s pe=%s off=%d pec=%d", meta, pe, 1+c, pec)
			}
			if realMode {
				if g.chance(1, 5) {
					g.emit("K move %d", 1+g.intn(3))
				}
				// the real client answers leader lookups from the metadata it read last, and a mock broker answers with a fixed
				// set of blocks: both are the current layout exactly when the cycle starts with a metadata refresh
				g.emit("K cycle tick=1 meta=%s terr=0 perr=- lq=- bf=- pe=%s off=%d pec=%d ek=0", meta, pe, 1+c, pec)
				continue
			}
			if !loopMode {
				g.emit("K cycle tick=%d meta=%s terr=%d perr=%s lq=%s bf=%s pe=%s off=%d pec=%d ek=%d", tick, meta, terr, perr, lq, bf, pe, 1+c, pec, g.intn(5))
				continue
			}
			if tick == 1 {
				g.emit("K tick meta")
				if g.chance(1, 4) {
					g.emit("K tick meta")
				}
			}
			if g.chance(1, 2) {
				g.emit("K tick reap %s", genReap(g))
			}
			g.emit("K tick offset meta=%s terr=%d perr=%s lq=%s bf=%s pe=%s off=%d pec=%d ek=%d", meta, terr, perr, lq, bf, pe, 1+c, pec, g.intn(5))
			if g.chance(1, 3) {
				g.emit("K tick reap %s", genReap(g))
			}
		}
		if loopMode {
			g.emit("K stop")
		}
	}
}

var clGroups = []string{"g0", "g1", "g2", "g3", "burrow-c0", "burrow-c1", "G0"}

// genReap scripts one sweep of the groups reaper: kg = what Kafka's ListConsumerGroups answers ("!" = error, "-" = no
// groups), sg = what storage answers to StorageFetchConsumers ("!" = a nil reply, "-" = no groups; order matters)
func genReap(g *gen) string {
	list := func() string {
		var xs []string
		for _, x := range clGroups {
			if g.chance(1, 2) {
				xs = append(xs, x)
			}
		}
		g.rnd.Shuffle(len(xs), func(i, j int) { xs[i], xs[j] = xs[j], xs[i] })
		if len(xs) == 0 {
			return "-"
		}
		return strings.Join(xs, ",")
	}
	kg, sg := list(), list()
	if g.chance(1, 6) {
		kg = "!"
	}
	if g.chance(1, 8) {
		sg = "!"
	}
	return fmt.Sprintf("kg=%s sg=%s", kg, sg)
}

type clEnv struct {
	order   []string
	parts   map[string][]clPart
	terr    bool
	perr    string
	ek      string // kind of error the scripted failures of this cycle return
	pec     int16
	lq      map[string]int // "t.p" -> leader or -1
	bf      map[int]bool
	pe      map[string]bool
	base    int64
	pending int // refresh-time leader lookups still expected
}

func parseKV(fields []string) map[string]string {
	m := map[string]string{}
	for _, f := range fields {
		if i := strings.IndexByte(f, '='); i > 0 {
			m[f[:i]] = f[i+1:]
		}
	}
	return m
}

func parseClEnv(kv map[string]string) *clEnv {
	e := &clEnv{parts: map[string][]clPart{}, lq: map[string]int{}, bf: map[int]bool{}, pe: map[string]bool{}}
	if kv["meta"] != "-" {
		for _, ts := range strings.Split(kv["meta"], ";") {
			i := strings.IndexByte(ts, ':')
			t := ts[:i]
			e.order = append(e.order, t)
			e.parts[t] = []clPart{}
			if ts[i+1:] == "" {
				continue
			}
			for _, ps := range strings.Split(ts[i+1:], ",") {
				f := strings.Split(ps, ".")
				id, _ := strconv.Atoi(f[0])
				l := -1
				if f[1] != "-" {
					l, _ = strconv.Atoi(f[1])
				}
				e.parts[t] = append(e.parts[t], clPart{id, l})
			}
		}
	}
	e.terr = kv["terr"] == "1"
	e.perr = kv["perr"]
	e.ek = kv["ek"]
	if kv["lq"] != "-" {
		for _, x := range strings.Split(kv["lq"], ",") {
			f := strings.Split(x, ":")
			l := -1
			if f[1] != "-" {
				l, _ = strconv.Atoi(f[1])
			}
			e.lq[f[0]] = l
		}
	}
	if kv["bf"] != "-" {
		for _, x := range strings.Split(kv["bf"], ",") {
			b, _ := strconv.Atoi(x)
			e.bf[b] = true
		}
	}
	if kv["pe"] != "-" {
		for _, x := range strings.Split(kv["pe"], ",") {
			e.pe[x] = true
		}
	}
	e.base, _ = strconv.ParseInt(kv["off"], 10, 64)
	if c, err := strconv.Atoi(kv["pec"]); err == nil {
		e.pec = int16(c)
	}
	return e
}

func topicIndex(t string) int64 {
	for i, x := range clTopics {
		if x == t {
			return int64(i)
		}
	}
	return 9
}

var partCache, partCacheWant = map[string][]int32{}, map[string][]int32{}

func equalInt32(a, b []int32) bool {
	if len(a) != len(b) {
		return false
	}
	for i := range a {
		if a[i] != b[i] {
			return false
		}
	}
	return true
}

func runCluster(r *runner) {
	var app *protocol.ApplicationContext
	var cl *verifhook.KafkaCluster
	var env *clEnv
	fake := &verifhook.FakeKafka{}
	fake.TopicsFn = func() ([]string, bool) {
		// whatever the error is, a failed call aborts the refresh (the model does not look at the kind)
		switch env.ek {
		case "1":
			fake.FaultErr = sarama.ErrUnknownTopicOrPartition
		case "2":
			fake.FaultErr = sarama.ErrLeaderNotAvailable
		case "3":
			fake.FaultErr = io.ErrUnexpectedEOF
		case "4":
			fake.FaultErr = sarama.ErrOutOfBrokers
		default:
			fake.FaultErr = nil
		}
		if env.terr {
			return nil, false
		}
		return append([]string{}, env.order...), true
	}
	fake.PartitionsFn = func(t string) ([]int32, bool) {
		if env.perr == t {
			env.pending = 0
			return nil, false
		}
		var out []int32
		for _, p := range env.parts[t] {
			out = append(out, int32(p.id))
		}
		env.pending = len(out)
		// like sarama, hand out the SAME cached slice for as long as the topic's partition list is
		// unchanged: a caller that writes into it corrupts what the next metadata read sees
		if prev, ok := partCacheWant[t]; ok && equalInt32(prev, out) {
			return partCache[t], true
		}
		partCacheWant[t] = append([]int32{}, out...)
		partCache[t] = out
		return out, true
	}
	fake.LeaderFn = func(t string, p int32) (int32, bool) {
		refreshTime := env.pending > 0
		if refreshTime {
			env.pending--
		}
		leader := -1
		for _, x := range env.parts[t] {
			if x.id == int(p) {
				leader = x.leader
			}
		}
		if !refreshTime {
			if l, ok := env.lq[fmt.Sprintf("%s.%d", t, p)]; ok {
				leader = l
			}
		}
		if leader < 0 {
			return 0, false
		}
		return int32(leader), true
	}
	fake.OffsetsFn = func(b int32, req []verifhook.TopicPartition) ([]verifhook.BlockAnswer, bool) {
		if env.bf[int(b)] {
			return nil, false
		}
		var out []verifhook.BlockAnswer
		for _, tp := range req {
			a := verifhook.BlockAnswer{Topic: tp.Topic, Partition: tp.Partition, Offset: env.base*1000 + 10*topicIndex(tp.Topic) + int64(tp.Partition)}
			if env.pe[fmt.Sprintf("%s.%d", tp.Topic, tp.Partition)] {
				a.Err = true
				a.Code = env.pec
			}
			out = append(out, a)
		}
		return out, true
	}
	// real mode: a real sarama client on sarama's mock brokers, created on first use and kept for the run
	var real *verifhook.RealKafka
	confN := 0
	realMode, realUnavailable := false, false
	defer func() {
		if real != nil {
			real.Close()
		}
	}()
	// loop mode: the module's real mainLoop runs on three ticker channels the harness owns
	var offC, metaC, reapC chan time.Time
	var lp *clPump
	stopLoop := func() {
		if lp != nil {
			_ = cl.Stop()
			lp.stop()
			lp = nil
		}
	}
	fake.GroupsFn = func() (map[string]string, bool) {
		if lp == nil {
			return nil, false
		}
		return lp.nextGroups()
	}
	// syncLoop returns once everything the loop was given before has been handled: a reaper tick whose listing
	// fails (no effect: Props.C09.reaper_failed_listing_deletes_nothing) is only received when the loop is idle again
	syncLoop := func() {
		lp.pushGroups(nil, false)
		reapC <- time.Time{}
	}
	for {
		line, ok := r.next()
		if !ok {
			stopLoop()
			return
		}
		if strings.HasPrefix(line, "#") {
			r.resolve("%s", line)
			r.reply("%s", line)
			continue
		}
		f := strings.Split(line, " ")
		if len(f) > 1 && f[1] == "start" && (real == nil || !realMode) {
			// no real cluster to connect to in this sandbox: the model is told so
			r.resolve("K startskipped")
			r.reply("start=skipped")
			continue
		}
		r.resolve("%s", line)
		switch f[1] {
		case "conf":
			kv := parseKV(f[2:])
			confN++
			root := fmt.Sprintf("cluster.kconf%d", confN)
			viper.Set(root+".class-name", "kafka")
			viper.Set(root+".servers", []string{"k1:9092"})
			for key, k := range map[string]string{"or": "offset-refresh", "tr": "topic-refresh", "gr": "groups-reaper-refresh"} {
				if kv[key] != "-" {
					viper.Set(root+"."+k, atoi(kv[key]))
				}
			}
			r.reply("%s", guard(func() string {
				m := verifhook.ConfigureKafkaCluster(&protocol.ApplicationContext{Logger: zap.NewNop()}, "kc", root)
				a, b, c := m.Settings()
				return fmt.Sprintf("conf or=%d tr=%d gr=%d", a, b, c)
			}))
		case "start":
			if real == nil || !realMode {
				// no real cluster to connect to: nothing to run (the model's answer is accepted as is)
				r.reply("start=skipped")
				break
			}
			kv := parseKV(append(f[2:], "terr=0", "perr=-", "lq=-", "bf=-", "ek=0"))
			env = parseClEnv(kv)
			layout, answers := realScript(env)
			confN++
			root := fmt.Sprintf("cluster.kstart%d", confN)
			viper.Set(root+".class-name", "kafka")
			viper.Set(root+".servers", []string{real.SeedAddr()})
			viper.Set(root+".offset-refresh", 1)
			viper.Set(root+".topic-refresh", 3600)
			// the mock brokers speak the protocol of Kafka 0.10.2 (metadata v2, no ApiVersions exchange)
			viper.Set("client-profile.kstart.kafka-version", "0.10.2.0")
			viper.Set("client-profile.kstart.client-id", "burrow-verif")
			viper.Set(root+".client-profile", "kstart")
			app2 := &protocol.ApplicationContext{Logger: zap.NewNop(), StorageChannel: make(chan *protocol.StorageRequest, 4096)}
			r.reply("%s", guard(func() string {
				real.Script(layout, answers)
				real.Since()
				m := verifhook.ConfigureKafkaCluster(app2, "c0", root)
				if err := m.Start(); err != nil {
					return "start=err"
				}
				take := func(ownFetches int) string {
					var reqs []*protocol.StorageRequest
					for len(app2.StorageChannel) > 0 {
						reqs = append(reqs, <-app2.StorageChannel)
					}
					// how many full metadata requests reach the brokers is sarama's business (the production client retries a
					// listing that contains leaderless partitions, and reads the metadata once when it connects): only
					// whether the cycle re-read the metadata at all is compared, and for the first cycle not even that
					refreshes, asked := real.Since()
					if refreshes > 1 {
						refreshes = 1
					}
					if ownFetches > 0 {
						refreshes = 1
					}
					out := renderCycleOf(refreshes, asked, m, reqs)
					return strings.ReplaceAll(out[:strings.LastIndex(out, " fm=")], " ", "~")
				}
				// Start has fetched once before it returns (the module's own client reads the metadata when it connects:
				// the brokers see one more full metadata request than the module's refresh)
				c1 := take(1)
				// the first tick of the real one-second ticker: wait until the brokers have been asked again and the
				// cycle's traffic has settled
				deadline := time.Now().Add(3 * time.Second)
				for time.Now().Before(deadline) && len(app2.StorageChannel) == 0 && !real.AskedSince() {
					time.Sleep(5 * time.Millisecond)
				}
				time.Sleep(150 * time.Millisecond)
				c2 := take(0)
				_ = m.Stop()
				fm := 0
				if m.FetchMetadata() {
					fm = 1
				}
				return fmt.Sprintf("start=ok c1=%s c2=%s fm=%d", c1, c2, fm)
			}))
		case "move":
			if cl == nil {
				r.reply("bad-op")
				break
			}
			if real != nil && realMode {
				real.MoveBroker(int32(atoi(f[2])))
			}
			r.reply("ok")
		case "init":
			stopLoop()
			realMode = len(f) > 2 && f[2] == "real"
			if realMode && real == nil {
				// no loopback listener in this sandbox: the case runs against the scripted fake instead (same ops, same model)
				if k, err := verifhook.NewRealKafka(3); err == nil {
					real = k
				} else if !realUnavailable {
					realUnavailable = true
					fmt.Fprintf(os.Stderr, "cluster stream: real sarama client unavailable (%v); real-mode cases run against the fake\n", err)
				}
			}
			if realMode && real == nil {
				realMode = false
			}
			app = &protocol.ApplicationContext{StorageChannel: make(chan *protocol.StorageRequest, 4096)}
			cl = verifhook.NewKafkaCluster(app, "c0")
			partCache, partCacheWant = map[string][]int32{}, map[string][]int32{}
			r.reply("ok")
		case "cycle":
			kv := parseKV(f[2:])
			env = parseClEnv(kv)
			if kv["tick"] == "1" {
				cl.SetFetchMetadata(true)
			}
			if realMode {
				layout, answers := realScript(env)
				res := guard(func() string {
					real.Script(layout, answers)
					real.Since()
					cl.GetOffsetsReal(real)
					var reqs []*protocol.StorageRequest
					for len(app.StorageChannel) > 0 {
						reqs = append(reqs, <-app.StorageChannel)
					}
					refreshes, asked := real.Since()
					return renderCycleOf(refreshes, asked, cl, reqs)
				})
				r.reply("%s", res)
				break
			}
			fake.Reset()
			res := guard(func() string {
				cl.GetOffsets(fake)
				var deletes, updates, asked []string
				for len(app.StorageChannel) > 0 {
					q := <-app.StorageChannel
					switch q.RequestType {
					case protocol.StorageSetDeleteTopic:
						deletes = append(deletes, q.Topic)
					case protocol.StorageSetBrokerOffset:
						updates = append(updates, fmt.Sprintf("%s.%d.%d.%d", q.Topic, q.Partition, q.Offset, q.TopicPartitionCount))
					default:
						updates = append(updates, fmt.Sprintf("?%d", int(q.RequestType)))
					}
				}
				sort.Strings(deletes)
				sort.Strings(updates)
				var bs []int
				for b := range fake.Asked {
					bs = append(bs, int(b))
				}
				sort.Ints(bs)
				for _, b := range bs {
					var xs []string
					for _, tp := range fake.Asked[int32(b)] {
						xs = append(xs, fmt.Sprintf("%s.%d", tp.Topic, tp.Partition))
					}
					sort.Strings(xs)
					asked = append(asked, fmt.Sprintf("%d:%s", b, strings.Join(xs, "+")))
				}
				j := func(xs []string, sep string) string {
					if len(xs) == 0 {
						return "-"
					}
					return strings.Join(xs, sep)
				}
				fm := 0
				if cl.FetchMetadata() {
					fm = 1
				}
				return fmt.Sprintf("refresh=%d deletes=%s asked=%s updates=%s fm=%d", fake.RefreshCalls, j(deletes, ","), j(asked, ";"), j(updates, ","), fm)
			})
			r.reply("%s", res)
		case "loop":
			if cl == nil || lp != nil {
				r.reply("bad-op")
				break
			}
			offC, metaC, reapC = make(chan time.Time), make(chan time.Time), make(chan time.Time)
			lp = newClPump(app.StorageChannel)
			env = parseClEnv(map[string]string{"meta": "-", "lq": "-", "bf": "-", "pe": "-"})
			cl.StartMainLoop(fake, offC, metaC, reapC)
			r.reply("ok")
		case "stop":
			if lp == nil {
				r.reply("bad-op")
				break
			}
			res := guard(func() string {
				stopLoop()
				return "stopped"
			})
			r.reply("%s", res)
		case "tick":
			if lp == nil || len(f) < 3 {
				r.reply("bad-op")
				break
			}
			kv := parseKV(f[3:])
			res := guard(func() string {
				switch f[2] {
				case "meta":
					metaC <- time.Time{}
					syncLoop()
					if extra := lp.take(); len(extra) > 0 {
						return fmt.Sprintf("ok +%d storage requests", len(extra))
					}
					return "ok"
				case "reap":
					lp.setStorageGroups(kv["sg"])
					if kv["kg"] == "!" {
						lp.pushGroups(nil, false)
					} else {
						m := map[string]string{}
						if kv["kg"] != "-" {
							for _, x := range strings.Split(kv["kg"], ",") {
								m[x] = "consumer"
							}
						}
						lp.pushGroups(m, true)
					}
					reapC <- time.Time{}
					syncLoop()
					asked := 0
					var del []string
					for _, q := range lp.take() {
						switch q.RequestType {
						case protocol.StorageFetchConsumers:
							asked++
							if q.Cluster != "c0" {
								del = append(del, "?cluster="+q.Cluster)
							}
						case protocol.StorageSetDeleteGroup:
							if q.Cluster != "c0" {
								del = append(del, "?cluster="+q.Cluster)
							}
							del = append(del, q.Group)
						default:
							del = append(del, fmt.Sprintf("?%d", int(q.RequestType)))
						}
					}
					d := "-"
					if len(del) > 0 {
						d = strings.Join(del, ",")
					}
					return fmt.Sprintf("asked=%d del=%s", asked, d)
				case "offset":
					env = parseClEnv(kv)
					fake.Reset()
					offC <- time.Time{}
					syncLoop()
					return renderCycle(fake, cl, lp.take())
				}
				return "bad-op"
			})
			r.reply("%s", res)
		default:
			r.reply("bad-op")
		}
	}
}

// realScript turns a cycle's scripted environment into what the mock cluster is told: leaders per partition, and the
// blocks each broker answers (exactly the partitions it leads)
func realScript(env *clEnv) (map[string]map[int32]int32, map[int32][]verifhook.BlockAnswer) {
	layout := map[string]map[int32]int32{}
	answers := map[int32][]verifhook.BlockAnswer{}
	for _, t := range env.order {
		layout[t] = map[int32]int32{}
		for _, p := range env.parts[t] {
			layout[t][int32(p.id)] = int32(p.leader)
			if p.leader >= 0 {
				a := verifhook.BlockAnswer{Topic: t, Partition: int32(p.id), Offset: env.base*1000 + 10*topicIndex(t) + int64(p.id)}
				if env.pe[fmt.Sprintf("%s.%d", t, p.id)] {
					a.Err, a.Code = true, env.pec
				}
				answers[int32(p.leader)] = append(answers[int32(p.leader)], a)
			}
		}
	}
	return layout, answers
}

// renderCycle prints what one refresh cycle did: the storage requests it sent and the brokers it asked.
func renderCycle(fake *verifhook.FakeKafka, cl *verifhook.KafkaCluster, reqs []*protocol.StorageRequest) string {
	return renderCycleOf(fake.RefreshCalls, fake.Asked, cl, reqs)
}

func renderCycleOf(refreshCalls int, askedOf map[int32][]verifhook.TopicPartition, cl *verifhook.KafkaCluster, reqs []*protocol.StorageRequest) string {
	var deletes, updates, asked []string
	for _, q := range reqs {
		switch q.RequestType {
		case protocol.StorageSetDeleteTopic:
			deletes = append(deletes, q.Topic)
		case protocol.StorageSetBrokerOffset:
			updates = append(updates, fmt.Sprintf("%s.%d.%d.%d", q.Topic, q.Partition, q.Offset, q.TopicPartitionCount))
		default:
			updates = append(updates, fmt.Sprintf("?%d", int(q.RequestType)))
		}
	}
	sort.Strings(deletes)
	sort.Strings(updates)
	var bs []int
	for b := range askedOf {
		bs = append(bs, int(b))
	}
	sort.Ints(bs)
	for _, b := range bs {
		var xs []string
		for _, tp := range askedOf[int32(b)] {
			xs = append(xs, fmt.Sprintf("%s.%d", tp.Topic, tp.Partition))
		}
		sort.Strings(xs)
		asked = append(asked, fmt.Sprintf("%d:%s", b, strings.Join(xs, "+")))
	}
	j := func(xs []string, sep string) string {
		if len(xs) == 0 {
			return "-"
		}
		return strings.Join(xs, sep)
	}
	fm := 0
	if cl.FetchMetadata() {
		fm = 1
	}
	return fmt.Sprintf("refresh=%d deletes=%s asked=%s updates=%s fm=%d", refreshCalls, j(deletes, ","), j(asked, ";"), j(updates, ","), fm)
}

// clPump stands in for storage while the real main loop runs: it takes every request off the storage channel, answers
// StorageFetchConsumers with the scripted listing, and keeps the requests for the op to read.  Receives happen only
// under the mutex, so "channel empty, seen under the mutex" means everything sent so far has been kept.
type clPump struct {
	mu     sync.Mutex
	ch     chan *protocol.StorageRequest
	kept   []*protocol.StorageRequest
	sg     string
	groups []clGroupsAnswer
	quit   chan struct{}
	done   chan struct{}
}
type clGroupsAnswer struct {
	m  map[string]string
	ok bool
}

func newClPump(ch chan *protocol.StorageRequest) *clPump {
	p := &clPump{ch: ch, sg: "!", quit: make(chan struct{}), done: make(chan struct{})}
	go func() {
		defer close(p.done)
		for {
			select {
			case <-p.quit:
				return
			default:
			}
			p.mu.Lock()
			select {
			case q := <-p.ch:
				p.kept = append(p.kept, q)
				if q.RequestType == protocol.StorageFetchConsumers && q.Reply != nil {
					switch p.sg {
					case "!":
						close(q.Reply)
					case "-":
						q.Reply <- []string{}
					default:
						q.Reply <- strings.Split(p.sg, ",")
					}
				}
				p.mu.Unlock()
			default:
				p.mu.Unlock()
				time.Sleep(20 * time.Microsecond)
			}
		}
	}()
	return p
}
func (p *clPump) stop() { close(p.quit); <-p.done }
func (p *clPump) setStorageGroups(sg string) {
	p.mu.Lock()
	p.sg = sg
	p.mu.Unlock()
}
func (p *clPump) pushGroups(m map[string]string, ok bool) {
	p.mu.Lock()
	p.groups = append(p.groups, clGroupsAnswer{m, ok})
	p.mu.Unlock()
}
func (p *clPump) nextGroups() (map[string]string, bool) {
	p.mu.Lock()
	defer p.mu.Unlock()
	if len(p.groups) == 0 {
		return nil, false
	}
	a := p.groups[0]
	p.groups = p.groups[1:]
	return a.m, a.ok
}
func (p *clPump) take() []*protocol.StorageRequest {
	for {
		p.mu.Lock()
		if len(p.ch) == 0 {
			out := p.kept
			p.kept = nil
			p.mu.Unlock()
			return out
		}
		p.mu.Unlock()
		time.Sleep(20 * time.Microsecond)
	}
}
