package main

import (
	"fmt"
	"io"
	"sort"
	"strconv"
	"strings"

	"github.com/IBM/sarama"

	"github.com/linkedin/Burrow/core/protocol"
	"github.com/linkedin/Burrow/core/verifhook"
)

// Stream "cluster": refresh cycles of the real KafkaCluster.getOffsets against a scripted fake Kafka (C11, C12).
//
//	K init
//	K cycle tick=<0|1> meta=<M> terr=<0|1> perr=<topic|-> lq=<t.p:b|t.p:-,…|-> bf=<b,…|-> pe=<t.p,…|-> off=<base>
//	   M = topics in the order Topics() lists them: t0:0.1,1.2,2.-;t1:0.3   (partition.leaderAtRefresh, "-" = none); "-" = no topics
//	   lq = leader lookups that answer differently while the requests are built; bf = brokers whose call fails;
//	   pe = partitions answered with an error code; offset of (t,p) = base*1000 + 10*index(t) + p
//
// Output: refresh= deletes= asked= updates= fm=

func init() { register(&stream{name: "cluster", gen: genCluster, run: runCluster}) }

var clTopics = []string{"t0", "t1", "t2", "t3"}

type clPart struct {
	id     int
	leader int // -1 none
}

func genCluster(g *gen) {
	n := 500 * g.scale
	for i := 0; i < n; i++ {
		g.newCase()
		g.emit("K init")
		// the cluster's true layout evolves over the cycles
		layout := map[string][]clPart{}
		order := []string{}
		addTopic := func(t string) {
			np := g.intn(5)
			ps := make([]clPart, np)
			for k := range ps {
				ps[k] = clPart{k, 1 + g.intn(3)}
				if g.chance(1, 6) {
					ps[k].leader = -1
				}
			}
			layout[t] = ps
			order = append(order, t)
		}
		for _, t := range clTopics[:g.intn(4)] {
			addTopic(t)
		}
		cycles := 1 + g.intn(7)
		for c := 0; c < cycles; c++ {
			// mutate the layout
			if g.chance(1, 3) && len(order) > 0 {
				k := g.intn(len(order))
				delete(layout, order[k])
				order = append(order[:k], order[k+1:]...)
			}
			if g.chance(1, 3) {
				t := clTopics[g.intn(len(clTopics))]
				if _, ok := layout[t]; !ok {
					addTopic(t)
				}
			}
			if g.chance(1, 4) && len(order) > 0 {
				t := order[g.intn(len(order))]
				for k := range layout[t] {
					if g.chance(1, 2) {
						layout[t][k].leader = -1 // topic losing leaders
					} else {
						layout[t][k].leader = 1 + g.intn(3)
					}
				}
			}
			var ms []string
			for _, t := range order {
				var ps []string
				for _, p := range layout[t] {
					l := "-"
					if p.leader >= 0 {
						l = strconv.Itoa(p.leader)
					}
					ps = append(ps, fmt.Sprintf("%d.%s", p.id, l))
				}
				ms = append(ms, t+":"+strings.Join(ps, ","))
			}
			meta := "-"
			if len(ms) > 0 {
				meta = strings.Join(ms, ";")
			}
			terr, perr := 0, "-"
			if g.chance(1, 8) {
				terr = 1
			}
			if g.chance(1, 6) && len(order) > 0 {
				perr = order[g.intn(len(order))]
			}
			pickTP := func() string {
				t := clTopics[g.intn(len(clTopics))]
				return fmt.Sprintf("%s.%d", t, g.intn(5))
			}
			lq := "-"
			if g.chance(1, 4) {
				var xs []string
				for k := 0; k < 1+g.intn(2); k++ {
					l := "-"
					if g.chance(1, 2) {
						l = strconv.Itoa(1 + g.intn(3))
					}
					xs = append(xs, pickTP()+":"+l)
				}
				lq = strings.Join(xs, ",")
			}
			bf := "-"
			if g.chance(1, 4) {
				bf = strconv.Itoa(1 + g.intn(3))
			}
			pe := "-"
			if g.chance(1, 4) {
				var xs []string
				for k := 0; k < 1+g.intn(2); k++ {
					xs = append(xs, pickTP())
				}
				pe = strings.Join(xs, ",")
			}
			tick := 0
			if g.chance(1, 3) {
				tick = 1
			}
			// the Kafka error code partitions in `pe` are answered with (any non-zero code is an error)
			pec := g.pick(6, 6, 3, 5, 9, 7, 1, 56, 78, 74, -1)
			g.emit("K cycle tick=%d meta=%s terr=%d perr=%s lq=%s bf=%s pe=%s off=%d pec=%d ek=%d", tick, meta, terr, perr, lq, bf, pe, 1+c, pec, g.intn(5))
		}
	}
}

type clEnv struct {
	order   []string
	parts   map[string][]clPart
	terr    bool
	perr    string
	ek      string // kind of error the scripted failures of this cycle return
	pec     int16
	lq      map[string]int // "t.p" -> leader or -1
	bf      map[int]bool
	pe      map[string]bool
	base    int64
	pending int // refresh-time leader lookups still expected
}

func parseKV(fields []string) map[string]string {
	m := map[string]string{}
	for _, f := range fields {
		if i := strings.IndexByte(f, '='); i > 0 {
			m[f[:i]] = f[i+1:]
		}
	}
	return m
}

func parseClEnv(kv map[string]string) *clEnv {
	e := &clEnv{parts: map[string][]clPart{}, lq: map[string]int{}, bf: map[int]bool{}, pe: map[string]bool{}}
	if kv["meta"] != "-" {
		for _, ts := range strings.Split(kv["meta"], ";") {
			i := strings.IndexByte(ts, ':')
			t := ts[:i]
			e.order = append(e.order, t)
			e.parts[t] = []clPart{}
			if ts[i+1:] == "" {
				continue
			}
			for _, ps := range strings.Split(ts[i+1:], ",") {
				f := strings.Split(ps, ".")
				id, _ := strconv.Atoi(f[0])
				l := -1
				if f[1] != "-" {
					l, _ = strconv.Atoi(f[1])
				}
				e.parts[t] = append(e.parts[t], clPart{id, l})
			}
		}
	}
	e.terr = kv["terr"] == "1"
	e.perr = kv["perr"]
	e.ek = kv["ek"]
	if kv["lq"] != "-" {
		for _, x := range strings.Split(kv["lq"], ",") {
			f := strings.Split(x, ":")
			l := -1
			if f[1] != "-" {
				l, _ = strconv.Atoi(f[1])
			}
			e.lq[f[0]] = l
		}
	}
	if kv["bf"] != "-" {
		for _, x := range strings.Split(kv["bf"], ",") {
			b, _ := strconv.Atoi(x)
			e.bf[b] = true
		}
	}
	if kv["pe"] != "-" {
		for _, x := range strings.Split(kv["pe"], ",") {
			e.pe[x] = true
		}
	}
	e.base, _ = strconv.ParseInt(kv["off"], 10, 64)
	if c, err := strconv.Atoi(kv["pec"]); err == nil {
		e.pec = int16(c)
	}
	return e
}

func topicIndex(t string) int64 {
	for i, x := range clTopics {
		if x == t {
			return int64(i)
		}
	}
	return 9
}

var partCache, partCacheWant = map[string][]int32{}, map[string][]int32{}

func equalInt32(a, b []int32) bool {
	if len(a) != len(b) {
		return false
	}
	for i := range a {
		if a[i] != b[i] {
			return false
		}
	}
	return true
}

func runCluster(r *runner) {
	var app *protocol.ApplicationContext
	var cl *verifhook.KafkaCluster
	var env *clEnv
	fake := &verifhook.FakeKafka{}
	fake.TopicsFn = func() ([]string, bool) {
		// whatever the error is, a failed call aborts the refresh (the model does not look at the kind)
		switch env.ek {
		case "1":
			fake.FaultErr = sarama.ErrUnknownTopicOrPartition
		case "2":
			fake.FaultErr = sarama.ErrLeaderNotAvailable
		case "3":
			fake.FaultErr = io.ErrUnexpectedEOF
		case "4":
			fake.FaultErr = sarama.ErrOutOfBrokers
		default:
			fake.FaultErr = nil
		}
		if env.terr {
			return nil, false
		}
		return append([]string{}, env.order...), true
	}
	fake.PartitionsFn = func(t string) ([]int32, bool) {
		if env.perr == t {
			env.pending = 0
			return nil, false
		}
		var out []int32
		for _, p := range env.parts[t] {
			out = append(out, int32(p.id))
		}
		env.pending = len(out)
		// like sarama, hand out the SAME cached slice for as long as the topic's partition list is
		// unchanged: a caller that writes into it corrupts what the next metadata read sees
		if prev, ok := partCacheWant[t]; ok && equalInt32(prev, out) {
			return partCache[t], true
		}
		partCacheWant[t] = append([]int32{}, out...)
		partCache[t] = out
		return out, true
	}
	fake.LeaderFn = func(t string, p int32) (int32, bool) {
		refreshTime := env.pending > 0
		if refreshTime {
			env.pending--
		}
		leader := -1
		for _, x := range env.parts[t] {
			if x.id == int(p) {
				leader = x.leader
			}
		}
		if !refreshTime {
			if l, ok := env.lq[fmt.Sprintf("%s.%d", t, p)]; ok {
				leader = l
			}
		}
		if leader < 0 {
			return 0, false
		}
		return int32(leader), true
	}
	fake.OffsetsFn = func(b int32, req []verifhook.TopicPartition) ([]verifhook.BlockAnswer, bool) {
		if env.bf[int(b)] {
			return nil, false
		}
		var out []verifhook.BlockAnswer
		for _, tp := range req {
			a := verifhook.BlockAnswer{Topic: tp.Topic, Partition: tp.Partition, Offset: env.base*1000 + 10*topicIndex(tp.Topic) + int64(tp.Partition)}
			if env.pe[fmt.Sprintf("%s.%d", tp.Topic, tp.Partition)] {
				a.Err = true
				a.Code = env.pec
			}
			out = append(out, a)
		}
		return out, true
	}
	for {
		line, ok := r.next()
		if !ok {
			return
		}
		if strings.HasPrefix(line, "#") {
			r.resolve("%s", line)
			r.reply("%s", line)
			continue
		}
		f := strings.Split(line, " ")
		r.resolve("%s", line)
		switch f[1] {
		case "init":
			app = &protocol.ApplicationContext{StorageChannel: make(chan *protocol.StorageRequest, 4096)}
			cl = verifhook.NewKafkaCluster(app, "c0")
			partCache, partCacheWant = map[string][]int32{}, map[string][]int32{}
			r.reply("ok")
		case "cycle":
			kv := parseKV(f[2:])
			env = parseClEnv(kv)
			if kv["tick"] == "1" {
				cl.SetFetchMetadata(true)
			}
			fake.Reset()
			res := guard(func() string {
				cl.GetOffsets(fake)
				var deletes, updates, asked []string
				for len(app.StorageChannel) > 0 {
					q := <-app.StorageChannel
					switch q.RequestType {
					case protocol.StorageSetDeleteTopic:
						deletes = append(deletes, q.Topic)
					case protocol.StorageSetBrokerOffset:
						updates = append(updates, fmt.Sprintf("%s.%d.%d.%d", q.Topic, q.Partition, q.Offset, q.TopicPartitionCount))
					default:
						updates = append(updates, fmt.Sprintf("?%d", int(q.RequestType)))
					}
				}
				sort.Strings(deletes)
				sort.Strings(updates)
				var bs []int
				for b := range fake.Asked {
					bs = append(bs, int(b))
				}
				sort.Ints(bs)
				for _, b := range bs {
					var xs []string
					for _, tp := range fake.Asked[int32(b)] {
						xs = append(xs, fmt.Sprintf("%s.%d", tp.Topic, tp.Partition))
					}
					sort.Strings(xs)
					asked = append(asked, fmt.Sprintf("%d:%s", b, strings.Join(xs, "+")))
				}
				j := func(xs []string, sep string) string {
					if len(xs) == 0 {
						return "-"
					}
					return strings.Join(xs, sep)
				}
				fm := 0
				if cl.FetchMetadata() {
					fm = 1
				}
				return fmt.Sprintf("refresh=%d deletes=%s asked=%s updates=%s fm=%d", fake.RefreshCalls, j(deletes, ","), j(asked, ";"), j(updates, ","), fm)
			})
			r.reply("%s", res)
		default:
			r.reply("bad-op")
		}
	}
}
