package main

import (
	"fmt"
	"strings"
	"sync"
	"time"

	"github.com/spf13/viper"

	"github.com/linkedin/Burrow/core/protocol"
	"github.com/linkedin/Burrow/core/verifhook"
)

// Concurrency ops of the storage runner (stream "conc"; C08): the module's REAL workers and main loop.
//
//	S cstart <intervals> <workers> <clusters>       NewStorage + real Start(workers)
//	S cbatch ordered <lane|lane|…>                  lanes run concurrently, each sends its requests in order; every
//	                                                group belongs to one lane and no lane writes broker state:
//	                                                the outcome is determined, the model runs the lanes one after another
//	S cbatch chaos <lane|lane|…>                    anything goes (broker updates, topic deletion and re-creation with
//	                                                other partition counts, all fetch types); judged by invariants on
//	                                                every reply; afterwards the module is stopped and started (empty)
//	S cstop
//	  lane = req,req,…   req = kind/field/field…    (names hex; commit timestamps relative to the batch clock)
//
// resolved: S cbatch <kind> <now> <lanes>.   Output of an ordered batch: one token per consumer fetch, in lane order.

type concReply struct {
	lane, idx int
	req       *protocol.StorageRequest
	reply     interface{}
	copy      string // canonical rendering taken at receipt
}

func parseConcReq(s string, now int64) *protocol.StorageRequest {
	f := strings.Split(s, "/")
	n := func(i int) string { return unhexName(f[i]) }
	switch f[0] {
	case "commit":
		return &protocol.StorageRequest{RequestType: protocol.StorageSetConsumerOffset, Cluster: n(1), Group: n(2), Topic: n(3), Partition: int32(atoi(f[4])), Offset: atoi(f[5]), Order: atoi(f[6]), Timestamp: now*1000 + atoi(f[7])}
	case "owner":
		return &protocol.StorageRequest{RequestType: protocol.StorageSetConsumerOwner, Cluster: n(1), Group: n(2), Topic: n(3), Partition: int32(atoi(f[4])), Owner: n(5), ClientID: n(6)}
	case "clear":
		return &protocol.StorageRequest{RequestType: protocol.StorageClearConsumerOwners, Cluster: n(1), Group: n(2)}
	case "delgroup":
		return &protocol.StorageRequest{RequestType: protocol.StorageSetDeleteGroup, Cluster: n(1), Group: n(2), Topic: n(3)}
	case "broker":
		return &protocol.StorageRequest{RequestType: protocol.StorageSetBrokerOffset, Cluster: n(1), Topic: n(2), Partition: int32(atoi(f[3])), TopicPartitionCount: int32(atoi(f[4])), Offset: atoi(f[5]), Timestamp: 1}
	case "deltopic":
		return &protocol.StorageRequest{RequestType: protocol.StorageSetDeleteTopic, Cluster: n(1), Topic: n(2)}
	case "consumer":
		return &protocol.StorageRequest{RequestType: protocol.StorageFetchConsumer, Cluster: n(1), Group: n(2)}
	case "consumers":
		return &protocol.StorageRequest{RequestType: protocol.StorageFetchConsumers, Cluster: n(1)}
	case "topics":
		return &protocol.StorageRequest{RequestType: protocol.StorageFetchTopics, Cluster: n(1)}
	case "topic":
		return &protocol.StorageRequest{RequestType: protocol.StorageFetchTopic, Cluster: n(1), Topic: n(2)}
	case "fortopic":
		return &protocol.StorageRequest{RequestType: protocol.StorageFetchConsumersForTopic, Cluster: n(1), Topic: n(2)}
	case "clusters":
		return &protocol.StorageRequest{RequestType: protocol.StorageFetchClusters}
	}
	return nil
}

func renderReply(r interface{}) string {
	switch x := r.(type) {
	case nil:
		return "nil"
	case protocol.ConsumerTopics:
		return strings.ReplaceAll(renderTopics(x), " ", "~")
	case []string:
		return "list=" + sortedHexList(x)
	case []int64:
		return "offs=" + fmtInts(x)
	}
	return fmt.Sprintf("?%T", r)
}

// snapshotViolation checks that a consumer reply is internally consistent
func snapshotViolation(t protocol.ConsumerTopics) string {
	for topic, parts := range t {
		for p, part := range parts {
			seen := false
			var last int64
			for _, o := range part.Offsets {
				if o == nil {
					if seen {
						return fmt.Sprintf("nil-after-commit:%s/%d", hexName(topic), p)
					}
					continue
				}
				if seen && o.Order <= last {
					return fmt.Sprintf("order-not-increasing:%s/%d", hexName(topic), p)
				}
				seen, last = true, o.Order
			}
			if n := len(part.Offsets); n > 0 && part.Offsets[n-1] != nil && len(part.BrokerOffsets) > 0 {
				b := part.BrokerOffsets[len(part.BrokerOffsets)-1]
				want := uint64(0)
				if b >= part.Offsets[n-1].Offset {
					want = uint64(b - part.Offsets[n-1].Offset)
				}
				if part.CurrentLag != want {
					return fmt.Sprintf("lag-inconsistent:%s/%d", hexName(topic), p)
				}
			}
		}
	}
	return ""
}

func (s *storageRunner) concStep(r *runner, f []string, line string) bool {
	switch f[1] {
	case "cstart":
		var clusters []string
		viper.Reset()
		for _, c := range strings.Split(f[4], ",") {
			clusters = append(clusters, unhexName(c))
			viper.Set("cluster."+unhexName(c)+".class-name", "kafka")
		}
		s.allow, s.deny = nil, nil
		s.st = verifhook.NewStorage(nil, int(atoi(f[2])), 604800, 0, "", "", clusters)
		if err := s.st.Start(int(atoi(f[3])), 1); err != nil {
			r.resolve("%s", line)
			r.reply("bad-op")
			return true
		}
		s.concWorkers = int(atoi(f[3]))
		r.resolve("S init %s 604800 0 0 0 %s", f[2], f[4])
		r.reply("ok")
	case "cbarrier":
		// wait until every broker update of the previous batch is visible (they went to arbitrary workers)
		r.resolve("%s", line)
		deadline := time.Now().Add(10 * time.Second)
		for {
			pending := 0
			for _, b := range s.lastBroker {
				reply, _ := s.fetch(&protocol.StorageRequest{RequestType: protocol.StorageFetchTopic, Cluster: b.Cluster, Topic: b.Topic})
				found := false
				if l, ok := reply.([]int64); ok {
					for _, v := range l {
						if v == b.Offset {
							found = true
						}
					}
				}
				if !found {
					pending++
				}
			}
			if pending == 0 || time.Now().After(deadline) {
				break
			}
			time.Sleep(200 * time.Microsecond)
		}
		r.reply("ok")
	case "cstop":
		r.resolve("%s", line)
		if s.st != nil && s.concWorkers > 0 {
			_ = s.st.Stop()
			s.concWorkers = 0
		}
		r.reply("ok")
	case "cbatch":
		if s.st == nil || s.concWorkers == 0 {
			r.resolve("%s", line)
			r.reply("bad-op")
			return true
		}
		now := stableNow()
		kind := f[2]
		lanes := strings.Split(f[3], "|")
		ch := s.st.Channel()
		s.lastBroker = nil
		for _, lane := range lanes {
			for _, rs := range strings.Split(lane, ",") {
				if req := parseConcReq(rs, now); req != nil && req.RequestType == protocol.StorageSetBrokerOffset {
					s.lastBroker = append(s.lastBroker, req)
				}
			}
		}
		var mu sync.Mutex
		var replies []*concReply
		var wg sync.WaitGroup
		done := make(chan struct{})
		for li, lane := range lanes {
			wg.Add(1)
			go func(li int, lane string) {
				defer wg.Done()
				for idx, rs := range strings.Split(lane, ",") {
					req := parseConcReq(rs, now)
					if req == nil {
						continue
					}
					if req.RequestType >= protocol.StorageFetchClusters && req.RequestType != protocol.StorageClearConsumerOwners {
						req.Reply = make(chan interface{}, 1)
					}
					ch <- req
					if req.Reply != nil {
						rep := <-req.Reply
						cr := &concReply{lane: li, idx: idx, req: req, reply: rep, copy: renderReply(rep)}
						mu.Lock()
						replies = append(replies, cr)
						mu.Unlock()
					}
				}
			}(li, lane)
		}
		go func() { wg.Wait(); close(done) }()
		res := ""
		select {
		case <-done:
		case <-time.After(20 * time.Second):
			res = "viol=deadlock-or-starvation"
		}
		if res == "" {
			// quiesce: a consumer fetch per group queues behind that group's writes on its worker
			seen := map[string]bool{}
			for _, lane := range lanes {
				for _, rs := range strings.Split(lane, ",") {
					if req := parseConcReq(rs, now); req != nil && req.Group != "" && !seen[req.Cluster+"\x00"+req.Group] {
						seen[req.Cluster+"\x00"+req.Group] = true
						q := &protocol.StorageRequest{RequestType: protocol.StorageFetchConsumer, Cluster: req.Cluster, Group: req.Group, Reply: make(chan interface{}, 1)}
						ch <- q
						<-q.Reply
					}
				}
			}
			var viol []string
			var outs []string
			// replies in lane order, then index
			for li := range lanes {
				for _, cr := range replies {
					if cr.lane != li {
						continue
					}
					if after := renderReply(cr.reply); after != cr.copy {
						viol = append(viol, fmt.Sprintf("reply-changed-after-receipt:%d.%d", cr.lane, cr.idx))
					}
					if t, ok := cr.reply.(protocol.ConsumerTopics); ok {
						if v := snapshotViolation(t); v != "" {
							viol = append(viol, v)
						}
					}
					if cr.req.RequestType == protocol.StorageFetchConsumer {
						outs = append(outs, fmt.Sprintf("f%d.%d=%s", cr.lane, cr.idx, cr.copy))
					}
				}
			}
			// order the replies of one lane by index
			sortConcOuts(outs)
			switch {
			case len(viol) > 0:
				res = "viol=" + strings.Join(viol, ";")
			case kind == "ordered":
				res = "ok " + strings.Join(outs, " ")
			default:
				res = "ok"
			}
		}
		if kind == "chaos" && !strings.HasPrefix(res, "viol=deadlock") {
			// back to a known state: the real Stop drains the workers, the real Start builds empty cluster maps
			_ = s.st.Stop()
			_ = s.st.Start(s.concWorkers, 1)
		}
		if time.Now().Unix() != now {
			res += " tick"
		}
		r.resolve("S cbatch %s %d %s", kind, now, f[3])
		r.reply("%s", strings.TrimSpace(res))
	default:
		return false
	}
	return true
}

func sortConcOuts(outs []string) {
	key := func(s string) (int, int) {
		var a, b int
		fmt.Sscanf(s, "f%d.%d=", &a, &b)
		return a, b
	}
	for i := 1; i < len(outs); i++ {
		for j := i; j > 0; j-- {
			a1, b1 := key(outs[j-1])
			a2, b2 := key(outs[j])
			if a1 > a2 || (a1 == a2 && b1 > b2) {
				outs[j-1], outs[j] = outs[j], outs[j-1]
			} else {
				break
			}
		}
	}
}

// ---- generation -------------------------------------------------------------------------------------

func init() { register(&stream{name: "conc", gen: genConc, run: runStorage}) }

func genConc(g *gen) {
	n := 12 * g.scale
	clusters := []string{"c0", "c1"}
	groups := []string{"g0", "g1", "g2", "g3", "g4"}
	topics := []string{"t0", "t1"}
	for i := 0; i < n; i++ {
		g.newCase()
		var cl []string
		for _, c := range clusters {
			cl = append(cl, hexName(c))
		}
		workers := int(g.pick(2, 3, 4, 8))
		g.emit("S cstart %d %d %s", 1+g.intn(3), workers, strings.Join(cl, ","))
		seedBroker := func() {
			// broker state is written in a batch of its own (one lane: deterministic)
			var reqs []string
			for _, c := range clusters {
				for _, t := range topics {
					cnt := 2 + g.intn(2)
					for p := 0; p < cnt; p++ {
						reqs = append(reqs, fmt.Sprintf("broker/%s/%s/%d/%d/%d", hexName(c), hexName(t), p, cnt, 100+g.intn(50)))
					}
				}
			}
			g.emit("S cbatch ordered %s", strings.Join(reqs, ","))
			// a fetch of every topic queues nothing behind the any-worker broker updates: wait by reading until stable is
			// not possible in general, so the broker lane is followed by a stop/start-free barrier: one topic fetch per worker round
			g.emit("S cbarrier")
		}
		seedBroker()
		order := int64(0)
		rounds := 3 + g.intn(4)
		for rd := 0; rd < rounds; rd++ {
			if g.chance(2, 3) {
				// ordered batch: groups are partitioned over the lanes
				nl := 2 + g.intn(3)
				lanes := make([][]string, nl)
				for gi, grp := range groups {
					li := gi % nl
					for _, c := range clusters {
						steps := g.intn(6)
						for s := 0; s < steps; s++ {
							switch x := g.intn(10); {
							case x < 5:
								// log positions start at 0: the first record of an offsets-topic partition is a commit like any other
								lanes[li] = append(lanes[li], fmt.Sprintf("commit/%s/%s/%s/%d/%d/%d/%d", hexName(c), hexName(grp), hexName(topics[g.intn(2)]), g.intn(3), 90+order, order, -20000+order*10))
								order++
							case x < 6:
								lanes[li] = append(lanes[li], fmt.Sprintf("owner/%s/%s/%s/%d/%s/%s", hexName(c), hexName(grp), hexName(topics[g.intn(2)]), g.intn(2), hexName("h"+fmt.Sprint(g.intn(3))), hexName("cl")))
							case x < 7:
								lanes[li] = append(lanes[li], fmt.Sprintf("clear/%s/%s", hexName(c), hexName(grp)))
							case x < 8:
								tp := "-"
								if g.chance(1, 2) {
									tp = hexName(topics[g.intn(2)])
								}
								lanes[li] = append(lanes[li], fmt.Sprintf("delgroup/%s/%s/%s", hexName(c), hexName(grp), tp))
							default:
								lanes[li] = append(lanes[li], fmt.Sprintf("consumer/%s/%s", hexName(c), hexName(grp)))
							}
						}
						lanes[li] = append(lanes[li], fmt.Sprintf("consumer/%s/%s", hexName(c), hexName(grp)))
					}
				}
				var ls []string
				for _, l := range lanes {
					if len(l) > 0 {
						ls = append(ls, strings.Join(l, ","))
					}
				}
				g.emit("S cbatch ordered %s", strings.Join(ls, "|"))
			} else {
				// chaos: topic deletion / re-creation with other partition counts, commits, every fetch type
				nl := 6 + g.intn(10)
				var ls []string
				for li := 0; li < nl; li++ {
					var reqs []string
					steps := 150 + g.intn(250)
					for s := 0; s < steps; s++ {
						c, grp, t := hexName(clusters[g.intn(2)]), hexName(groups[g.intn(len(groups))]), hexName(topics[g.intn(2)])
						switch x := g.intn(100); {
						case x < 30:
							order++
							reqs = append(reqs, fmt.Sprintf("commit/%s/%s/%s/%d/%d/%d/%d", c, grp, t, g.intn(4), 90+order, order, -20000+order*10))
						case x < 42:
							cnt := 1 + g.intn(4)
							reqs = append(reqs, fmt.Sprintf("broker/%s/%s/%d/%d/%d", c, t, g.intn(cnt), cnt, 100+g.intn(50)))
						case x < 52:
							reqs = append(reqs, fmt.Sprintf("deltopic/%s/%s", c, t))
						case x < 57:
							reqs = append(reqs, fmt.Sprintf("owner/%s/%s/%s/%d/%s/%s", c, grp, t, g.intn(3), hexName("h"), hexName("cl")))
						case x < 60:
							reqs = append(reqs, fmt.Sprintf("clear/%s/%s", c, grp))
						case x < 66:
							tp := "-"
							if g.chance(1, 2) {
								tp = t
							}
							reqs = append(reqs, fmt.Sprintf("delgroup/%s/%s/%s", c, grp, tp))
						case x < 84:
							reqs = append(reqs, fmt.Sprintf("consumer/%s/%s", c, grp))
						case x < 88:
							reqs = append(reqs, fmt.Sprintf("consumers/%s", c))
						case x < 92:
							reqs = append(reqs, fmt.Sprintf("topics/%s", c))
						case x < 96:
							reqs = append(reqs, fmt.Sprintf("topic/%s/%s", c, t))
						default:
							reqs = append(reqs, fmt.Sprintf("fortopic/%s/%s", c, t))
						}
					}
					ls = append(ls, strings.Join(reqs, ","))
				}
				g.emit("S cbatch chaos %s", strings.Join(ls, "|"))
				seedBroker()
			}
		}
		g.emit("S cstop")
	}
}
