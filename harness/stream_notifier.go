package main

import (
	"fmt"
	"os"
	"path/filepath"
	"regexp"
	"sort"
	"strings"
	"time"

	"github.com/spf13/viper"
	"go.uber.org/zap"

	"github.com/linkedin/Burrow/core/protocol"
	"github.com/linkedin/Burrow/core/verifhook"
)

// Stream "notifier": evaluation results against the real checkAndSendResponseToModules / notifyModule
// with recording modules (C13, C14, C10).
//
//	N cfg <mod;mod;…>                       mod = name:threshold:interval:once:close:allowRe|-:denyRe|-
//	N group <cluster> <group> | N delgroup <cluster> <group>
//	N shift <ms>                            stored instants move back (≡ the clock advanced)
//	N eval <cluster> <group> <status>       resolved: … <acc bits, one per module in cfg order>
//	N conf <mod;mod;…>                      mod = name:threshold:interval:send-interval:once:close:allowRe:denyRe, "-" = not set:
//	                                        the REAL Coordinator.Configure on that notifier section; prints what
//	                                        notifyModule will read per module, its lists, and the minimum interval
//
// Output of eval: notes=<sorted mod/status/id/start/close>, ids renamed to first-occurrence indices,
// start as virtual milliseconds since the case began.

func init() { register(&stream{name: "notifier", gen: genNotifier, run: runNotifier}) }

func genNotifier(g *gen) {
	n := 400 * g.scale
	groups := []string{"g0", "g1", "x 2"}
	for i := 0; i < n; i++ {
		g.newCase()
		if i%5 == 3 {
			// the configuration phase: which settings each module ends up with
			nm := 1 + g.intn(3)
			var mods []string
			optInt := func(vals ...int64) string {
				if g.chance(1, 2) {
					return "-"
				}
				return fmt.Sprint(g.pick(vals...))
			}
			optBool := func() string { return g.pickS("-", "0", "1") }
			for m := 0; m < nm; m++ {
				allow, deny := "-", "-"
				if g.chance(1, 2) {
					allow = hexName(g.pickS("^g", "0$", "^team-a"))
				}
				if g.chance(1, 2) {
					deny = hexName(g.pickS("1$", "^x", "test"))
				}
				mods = append(mods, fmt.Sprintf("m%d:%s:%s:%s:%s:%s:%s:%s", m, optInt(1, 2, 3, 4), optInt(5, 30, 60, 300), optInt(0, 10, 120, 600),
					optBool(), optBool(), allow, deny))
			}
			g.emit("N conf %s", strings.Join(mods, ";"))
			continue
		}
		nm := 1 + g.intn(3)
		var mods []string
		for m := 0; m < nm; m++ {
			allow, deny := "-", "-"
			if g.chance(1, 4) {
				allow = hexName(g.pickS("^g", "0$"))
			}
			if g.chance(1, 4) {
				deny = hexName(g.pickS("1$", "^x"))
			}
			mods = append(mods, fmt.Sprintf("m%d:%d:%d:%d:%d:%s:%s", m, g.pick(1, 2, 2, 3, 3, 4), g.pick(0, 1, 5, 5, 60), g.intn(2), g.intn(2), allow, deny))
		}
		g.emit("N cfg %s", strings.Join(mods, ";"))
		ng := 1 + g.intn(3)
		for k := 0; k < ng; k++ {
			g.emit("N group %s %s", hexName("c0"), hexName(groups[k]))
		}
		// the second cluster always exists (a response for a cluster the notifier has never listed cannot occur)
		g.emit("N group %s %s", hexName("c1"), hexName(groups[g.intn(2)]))
		steps := 8 + g.intn(28)
		listing := func(drop bool) string {
			// what storage lists: the groups registered above (c0: the first ng, c1: one of the first two — re-listed in
			// full so that nothing disappears), optionally without one c0 group
			var c0 []string
			for k := 0; k < ng; k++ {
				if drop && k == ng-1 && ng > 1 {
					continue
				}
				c0 = append(c0, hexName(groups[k]))
			}
			return hexName("c0") + "=" + strings.Join(c0, ",") + ";" + hexName("c1") + "=" + hexName(groups[0]) + "," + hexName(groups[1])
		}
		for s := 0; s < steps; s++ {
			if s > 2 && g.chance(1, 14) {
				// the periodic refresh of the group records, in the middle of whatever incidents are open
				g.emit("N refresh %s 0", listing(g.chance(1, 3)))
			} else if i%200 == 17 && i < 1000 && s == steps/2 {
				// … and one that meets a storage subsystem too busy to take the consumer-list requests
				g.emit("N refresh %s 1", listing(false))
			}
			// time passes before (almost) every evaluation; multiples of 8 ms that never sum to a whole second
			// (always: with a zero shift the real code sees a few microseconds, the model exactly 0)
			g.emit("N shift %d", g.pick(0, 0, 0, 1, 1, 2, 4, 5, 6, 30, 61)*1000+8)
			grp := groups[g.intn(ng)]
			cl := "c0"
			if g.chance(1, 8) {
				cl = "c1"
			}
			// status sequences with incidents of several lengths and several severities
			var st int64
			switch g.intn(10) {
			case 0, 1, 2:
				st = 1
			case 3, 4:
				st = 2
			case 5, 6:
				st = 3
			default:
				st = g.pick(2, 3, 4, 5, 6)
			}
			g.emit("N eval %s %s %d", hexName(cl), hexName(grp), st)
			if g.chance(1, 12) {
				// what the evaluator answers for a group it does not know (NOTFOUND) or that has vanished (nil): neither is
				// an evaluation — the incident, if one is open, stays open
				g.emit("N eval %s %s %s", hexName(cl), hexName(grp), g.pickS("0", "nil"))
			}
			if g.chance(1, 40) {
				g.emit("N delgroup %s %s", hexName(cl), hexName(grp))
			}
			if g.chance(1, 40) {
				g.emit("N group %s %s", hexName(cl), hexName(grp))
			}
		}
	}
}

// notifierConf runs the real Configure of the notifier coordinator on a notifier section built from the spec.
var notifierConfTmpl string

func notifierConf(spec string) (out string) {
	if notifierConfTmpl == "" {
		dir, err := os.MkdirTemp("", "burrowverif-nconf-")
		if err != nil {
			return "conf tmpfail"
		}
		scratchDirs = append(scratchDirs, dir)
		notifierConfTmpl = filepath.Join(dir, "open.tmpl")
		_ = os.WriteFile(notifierConfTmpl, []byte("{{.Cluster}} {{.Group}}"), 0o644)
	}
	viper.Reset()
	defer viper.Reset()
	defer func() {
		if rec := recover(); rec != nil {
			out = "conf panic"
		}
	}()
	var names []string
	for _, ms := range strings.Split(spec, ";") {
		p := strings.Split(ms, ":")
		root := "notifier." + p[0] + "."
		names = append(names, p[0])
		viper.Set(root+"class-name", "null")
		viper.Set(root+"template-open", notifierConfTmpl)
		viper.Set(root+"template-close", notifierConfTmpl)
		for i, key := range []string{"threshold", "interval", "send-interval"} {
			if p[1+i] != "-" {
				viper.Set(root+key, atoi(p[1+i]))
			}
		}
		for i, key := range []string{"send-once", "send-close"} {
			if p[4+i] != "-" {
				viper.Set(root+key, p[4+i] == "1")
			}
		}
		for i, key := range []string{"group-allowlist", "group-denylist"} {
			if p[6+i] != "-" {
				viper.Set(root+key, unhexName(p[6+i]))
			}
		}
		// extras reach the templates exactly as configured, whatever characters they contain
		// (a copy: viper hands the very map it was given on to the module, which may write into it)
		given := map[string]interface{}{}
		for k, v := range nconfExtras {
			given[k] = v
		}
		viper.Set(root+"extras", given)
	}
	n := verifhook.ConfigureNotifier(&protocol.ApplicationContext{Logger: zap.NewNop()})
	ex := "ok"
	for _, name := range names {
		got := n.ModuleExtras()[name]
		if len(got) != len(nconfExtras) {
			ex = "changed"
		}
		for k, v := range nconfExtras {
			if got[k] != v {
				ex = "changed"
			}
		}
	}
	lists := n.ModuleLists()
	sort.Strings(names)
	var parts, lparts []string
	for _, name := range names {
		root := "notifier." + name + "."
		l, ok := lists[name]
		if !ok {
			parts = append(parts, name+":missing")
			lparts = append(lparts, name+":missing")
			continue
		}
		parts = append(parts, fmt.Sprintf("%s:%d/%d/%s/%s", name, viper.GetInt(root+"threshold"), viper.GetInt(root+"send-interval"),
			bit(viper.GetBool(root+"send-once")), bit(viper.GetBool(root+"send-close"))))
		lparts = append(lparts, fmt.Sprintf("%s:%s/%s", name, hexName(l[0]), hexName(l[1])))
	}
	return fmt.Sprintf("conf min=%d mods=%s lists=%s ex=%s", n.MinInterval(), strings.Join(parts, ";"), strings.Join(lparts, ";"), ex)
}

// nconfExtras: what every module of an `N conf` section is given as extras
var nconfExtras = map[string]string{"app": "burrow", "api_key": "pa$$w0rd-9f$1c", "dc": "dc$east", "home": "${HOME}/x", "pct": "100%", "price": "US$"}

type recNote struct {
	module string
	status int
	id     string
	start  time.Time
	close  bool
}

type recModule struct {
	name        string
	allow, deny *regexp.Regexp
	sink        *[]recNote
}

func (m *recModule) Configure(name, configRoot string) {}
func (m *recModule) Start() error                      { return nil }
func (m *recModule) Stop() error                       { return nil }
func (m *recModule) GetName() string                   { return m.name }
func (m *recModule) GetGroupAllowlist() *regexp.Regexp { return m.allow }
func (m *recModule) GetGroupDenylist() *regexp.Regexp  { return m.deny }
func (m *recModule) GetLogger() *zap.Logger            { return zap.NewNop() }
func (m *recModule) AcceptConsumerGroup(*protocol.ConsumerGroupStatus) bool {
	return true
}
func (m *recModule) Notify(status *protocol.ConsumerGroupStatus, eventID string, startTime time.Time, stateGood bool) {
	*m.sink = append(*m.sink, recNote{m.name, int(status.Status), eventID, startTime, stateGood})
}

type notifierRunner struct {
	n        *verifhook.Notifier
	mods     []*recModule
	sink     []recNote
	ids      map[string]int
	tRef     time.Time
	cumShift int64 // ms
	app      *protocol.ApplicationContext
}

func (nr *notifierRunner) freeze() {
	// cancel the real time that passed since the last synchronisation point: stored instants move
	// forward by it, so that differences `now - stored` are exactly the sum of the explicit shifts
	now := time.Now()
	nr.n.ShiftTimes(-now.Sub(nr.tRef))
	nr.tRef = now
}

func runNotifier(r *runner) {
	nr := &notifierRunner{}
	for {
		line, ok := r.next()
		if !ok {
			return
		}
		if strings.HasPrefix(line, "#") {
			r.resolve("%s", line)
			r.reply("%s", line)
			continue
		}
		f := strings.Split(line, " ")
		switch f[1] {
		case "cfg":
			viper.Reset()
			nr.mods = nil
			nr.sink = nil
			nr.ids = map[string]int{}
			nr.cumShift = 0
			modules := map[string]verifhook.NotifierModule{}
			var resolved []string
			for _, spec := range strings.Split(f[2], ";") {
				p := strings.Split(spec, ":")
				m := &recModule{name: p[0], sink: &nr.sink}
				viper.Set("notifier."+p[0]+".threshold", int(atoi(p[1])))
				viper.Set("notifier."+p[0]+".send-interval", int(atoi(p[2])))
				viper.Set("notifier."+p[0]+".send-once", p[3] == "1")
				viper.Set("notifier."+p[0]+".send-close", p[4] == "1")
				if p[5] != "-" {
					m.allow = regexp.MustCompile(unhexName(p[5]))
				}
				if p[6] != "-" {
					m.deny = regexp.MustCompile(unhexName(p[6]))
				}
				nr.mods = append(nr.mods, m)
				modules[p[0]] = m
				resolved = append(resolved, strings.Join(p[:5], ":"))
			}
			nr.app = &protocol.ApplicationContext{}
			nr.n = verifhook.NewNotifier(nr.app, modules, 1)
			nr.tRef = time.Now()
			r.resolve("N cfg %s", strings.Join(resolved, ";"))
			r.reply("ok")
		case "conf":
			r.resolve("%s", line)
			r.reply("%s", notifierConf(f[2]))
		case "group":
			r.resolve("%s", line)
			nr.n.AddGroup(unhexName(f[2]), unhexName(f[3]), time.Hour)
			r.reply("ok")
		case "delgroup":
			r.resolve("%s", line)
			nr.n.DeleteGroup(unhexName(f[2]), unhexName(f[3]))
			r.reply("ok")
		case "refresh":
			// N refresh <cluster=group,group;…> <stall>: one REAL refresh of the group records (processClusterList /
			// processConsumerList) against a scripted storage; stall=1: storage answers the cluster list and then takes
			// no request for a while, so every consumer-list request is given up after its one-second timeout
			r.resolve("%s", line)
			var names []string
			groups := map[string][]string{}
			if f[2] != "-" {
				for _, e := range strings.Split(f[2], ";") {
					kv := strings.SplitN(e, "=", 2)
					c := unhexName(kv[0])
					names = append(names, c)
					groups[c] = []string{}
					if len(kv) == 2 && kv[1] != "" {
						for _, g := range strings.Split(kv[1], ",") {
							groups[c] = append(groups[c], unhexName(g))
						}
					}
				}
			}
			ch := make(chan *protocol.StorageRequest)
			nr.app.StorageChannel = ch
			done := make(chan struct{})
			stall := f[3] == "1"
			go func() {
				defer close(done)
				req := <-ch
				req.Reply <- names
				if stall {
					time.Sleep(time.Duration(len(names))*1050*time.Millisecond + 100*time.Millisecond)
					return
				}
				for range names {
					req := <-ch
					req.Reply <- groups[req.Cluster]
				}
			}()
			nr.sink = nr.sink[:0]
			nr.n.Refresh()
			<-done
			time.Sleep(4 * time.Millisecond)
			// a refresh only re-reads the listings: whatever it finds, no module hears anything because of it
			if len(nr.sink) > 0 {
				var who []string
				for _, n := range nr.sink {
					who = append(who, fmt.Sprintf("%s/%d", n.module, n.status))
				}
				r.reply("stray-notification %s", strings.Join(who, ","))
				break
			}
			r.reply("ok")
		case "shift":
			r.resolve("%s", line)
			d := atoi(f[2])
			nr.n.ShiftTimes(time.Duration(d) * time.Millisecond)
			nr.cumShift += d
			r.reply("ok")
		case "eval":
			group := unhexName(f[3])
			bits := ""
			for _, m := range nr.mods {
				acc := "1"
				if (m.allow != nil && !m.allow.MatchString(group)) || (m.deny != nil && m.deny.MatchString(group)) {
					acc = "0"
				}
				bits += acc
			}
			r.resolve("%s %s", line, bits)
			nr.sink = nr.sink[:0]
			nr.freeze()
			res := guard(func() string {
				// through the coordinator's REAL responseLoop; "nil" = the evaluator's answer for a vanished group
				if f[4] == "nil" {
					nr.n.Deliver(nil)
				} else {
					nr.n.Deliver(&protocol.ConsumerGroupStatus{Cluster: unhexName(f[2]), Group: group, Status: protocol.StatusConstant(atoi(f[4]))})
				}
				var notes []string
				for _, n := range nr.sink {
					id := "-"
					if n.id != "" {
						if _, ok := nr.ids[n.id]; !ok {
							nr.ids[n.id] = len(nr.ids)
						}
						id = fmt.Sprintf("i%d", nr.ids[n.id])
					}
					start := "-"
					if !n.start.IsZero() {
						ms := n.start.Sub(nr.tRef).Milliseconds() + nr.cumShift
						start = fmt.Sprintf("%d", ((ms+4)/8)*8) // nearest multiple of 8 ms
						if ms+4 < 0 {
							start = fmt.Sprintf("%d", -((-(ms+4)+7)/8)*8)
						}
					}
					c := 0
					if n.close {
						c = 1
					}
					notes = append(notes, fmt.Sprintf("%s/%d/%s/%s/%d", n.module, n.status, id, start, c))
				}
				sort.Strings(notes)
				if len(notes) == 0 {
					return "notes=-"
				}
				return "notes=" + strings.Join(notes, ",")
			})
			r.reply("%s", res)
		default:
			r.resolve("%s", line)
			r.reply("bad-op")
		}
	}
}
