package main

import (
	"bytes"
	"encoding/hex"
	"encoding/json"
	"fmt"
	"math"
	"os"
	"path/filepath"
	"sort"
	"strconv"
	"strings"
	"sync"
	"sync/atomic"
	"text/template"
	"text/template/parse"
	"time"

	"github.com/spf13/viper"
	"go.uber.org/zap"

	"github.com/linkedin/Burrow/core/protocol"
	"github.com/linkedin/Burrow/core/verifhook"
)

// Stream "tmpl": notification templates executed through the real executeTemplate (C20).
//
//	T x tmpl=<@file|hex source> safe=<0|1> inv=<0|1> cluster= group= id= start=<unix ns> extras=<k:v;…>
//	    st= complete=<f32 bits> total= lag= maxlag=<part|nil> parts=<part;…|->
//	  part = topic:partition:owner:client:status:start:end:curlag:completebits   start/end = nil | off/order/ts/obs/lag
//	resolved adds: ser=<serialised parse tree> fmt=<layout:rendering;…> f32=<bits:rendering;…> pjson=<hex>
//
// Output: r=ok out=<hex> json=<valid|invalid> gen=<same|na>   |   r=err gen=…
//
// `@file` templates are loaded from /repo/config with the parse function the notifier's Configure installs;
// source templates are parsed with the notifier's helper function map.  The serialised parse tree
// is what the Lean model executes; renderings done by Go library code (time.Format of the start time
// for every string literal of the template, fmt of every float32 of the data, json.Marshal of the
// partitions) travel as oracle values.

func init() { register(&stream{name: "tmpl", gen: genTmpl, run: runTmpl}) }

func repoDir() string {
	if d := os.Getenv("VERIF_REPO"); d != "" {
		return d
	}
	return "/repo"
}

var shippedTemplates = []string{"default-email.tmpl", "default-http-post.tmpl", "default-http-delete.tmpl", "default-slack-post.tmpl", "default-slack-delete.tmpl"}

// ---------------------------------------------------------------------------------------------
// serialisation of a parse tree (line protocol) and as a Lean term (facts)

func hx(s string) string {
	if s == "" {
		return "-"
	}
	return hex.EncodeToString([]byte(s))
}

func unhx(s string) string {
	if s == "-" {
		return ""
	}
	b, err := hex.DecodeString(s)
	if err != nil {
		panic("bad hex " + s)
	}
	return string(b)
}

type tmplPrinter struct {
	lean bool
}

func leanStr(s string) string {
	var b strings.Builder
	b.WriteByte('"')
	for _, r := range s {
		switch {
		case r == '"':
			b.WriteString("\\\"")
		case r == '\\':
			b.WriteString("\\\\")
		case r == '\n':
			b.WriteString("\\n")
		case r == '\t':
			b.WriteString("\\t")
		case r == '\r':
			b.WriteString("\\r")
		case r < 0x20 || r == 0x7f:
			fmt.Fprintf(&b, "\\u{%x}", r)
		default:
			b.WriteRune(r)
		}
	}
	b.WriteByte('"')
	return b.String()
}

func leanStrList(xs []string) string {
	parts := make([]string, len(xs))
	for i, x := range xs {
		parts[i] = leanStr(x)
	}
	return "[" + strings.Join(parts, ", ") + "]"
}

func (p tmplPrinter) arg(n parse.Node) string {
	switch a := n.(type) {
	case *parse.DotNode:
		if p.lean {
			return "Arg.dot"
		}
		return "d"
	case *parse.FieldNode:
		if p.lean {
			return "(Arg.field " + leanStrList(a.Ident) + ")"
		}
		toks := []string{"f", strconv.Itoa(len(a.Ident))}
		for _, id := range a.Ident {
			toks = append(toks, hx(id))
		}
		return strings.Join(toks, ",")
	case *parse.StringNode:
		if p.lean {
			return "(Arg.str " + leanStr(a.Text) + ")"
		}
		return "s," + hx(a.Text)
	case *parse.NumberNode:
		if a.IsInt && !a.IsFloat || (a.IsInt && float64(a.Int64) == a.Float64 && !strings.ContainsAny(a.Text, ".eE")) {
			if p.lean {
				if a.Int64 < 0 {
					return fmt.Sprintf("(Arg.num (%d))", a.Int64)
				}
				return fmt.Sprintf("(Arg.num %d)", a.Int64)
			}
			return "n," + strconv.FormatInt(a.Int64, 10)
		}
	}
	what := fmt.Sprintf("argument %s %q", n.Type().Type(), n.String())
	if p.lean {
		return "(Arg.unsupported " + leanStr(what) + ")"
	}
	return "u," + hx(what)
}

func (p tmplPrinter) args(ns []parse.Node) string {
	parts := make([]string, len(ns))
	for i, n := range ns {
		parts[i] = p.arg(n)
	}
	if p.lean {
		return "[" + strings.Join(parts, ", ") + "]"
	}
	return strings.Join(append([]string{strconv.Itoa(len(ns))}, parts...), ",")
}

func (p tmplPrinter) cmd(c *parse.CommandNode) string {
	unsupported := func(what string) string {
		if p.lean {
			return "(Cmd.unsupported " + leanStr(what) + ")"
		}
		return "U," + hx(what)
	}
	if len(c.Args) == 0 {
		return unsupported("empty command")
	}
	switch first := c.Args[0].(type) {
	case *parse.DotNode:
		if len(c.Args) == 1 {
			if p.lean {
				return "Cmd.dot"
			}
			return "D"
		}
	case *parse.FieldNode:
		pre, name := first.Ident[:len(first.Ident)-1], first.Ident[len(first.Ident)-1]
		if p.lean {
			return "(Cmd.field " + leanStrList(pre) + " " + leanStr(name) + " " + p.args(c.Args[1:]) + ")"
		}
		toks := []string{"F", strconv.Itoa(len(pre))}
		for _, id := range pre {
			toks = append(toks, hx(id))
		}
		toks = append(toks, hx(name), p.args(c.Args[1:]))
		return strings.Join(toks, ",")
	case *parse.IdentifierNode:
		if p.lean {
			return "(Cmd.call " + leanStr(first.Ident) + " " + p.args(c.Args[1:]) + ")"
		}
		return "C," + hx(first.Ident) + "," + p.args(c.Args[1:])
	case *parse.StringNode, *parse.NumberNode:
		if len(c.Args) == 1 {
			if p.lean {
				return "(Cmd.lit " + p.arg(first) + ")"
			}
			return "L," + p.arg(first)
		}
	}
	return unsupported("command " + c.String())
}

func (p tmplPrinter) pipe(pn *parse.PipeNode) string {
	if pn == nil || len(pn.Decl) > 0 {
		what := "pipeline with declarations"
		if p.lean {
			return "[Cmd.unsupported " + leanStr(what) + "]"
		}
		return "P,1,U," + hx(what)
	}
	parts := make([]string, len(pn.Cmds))
	for i, c := range pn.Cmds {
		parts[i] = p.cmd(c)
	}
	if p.lean {
		return "[" + strings.Join(parts, ", ") + "]"
	}
	return strings.Join(append([]string{"P", strconv.Itoa(len(parts))}, parts...), ",")
}

func (p tmplPrinter) list(l *parse.ListNode, i int) string {
	if l == nil || i >= len(l.Nodes) {
		if p.lean {
			return "T.done"
		}
		return "N"
	}
	rest := func() string { return p.list(l, i+1) }
	switch n := l.Nodes[i].(type) {
	case *parse.TextNode:
		if p.lean {
			return "(T.text " + leanStr(string(n.Text)) + " " + rest() + ")"
		}
		return "X," + hx(string(n.Text)) + "," + rest()
	case *parse.ActionNode:
		if p.lean {
			return "(T.action " + p.pipe(n.Pipe) + " " + rest() + ")"
		}
		return "A," + p.pipe(n.Pipe) + "," + rest()
	case *parse.IfNode:
		if p.lean {
			return "(T.ite " + p.pipe(n.Pipe) + " " + p.list(n.List, 0) + " " + p.list(n.ElseList, 0) + " " + rest() + ")"
		}
		return "I," + p.pipe(n.Pipe) + "," + p.list(n.List, 0) + "," + p.list(n.ElseList, 0) + "," + rest()
	case *parse.RangeNode:
		if p.lean {
			return "(T.range " + p.pipe(n.Pipe) + " " + p.list(n.List, 0) + " " + p.list(n.ElseList, 0) + " " + rest() + ")"
		}
		return "R," + p.pipe(n.Pipe) + "," + p.list(n.List, 0) + "," + p.list(n.ElseList, 0) + "," + rest()
	default:
		what := fmt.Sprintf("node %s", n.Type().Type())
		if p.lean {
			return "(T.unsupported " + leanStr(what) + " " + rest() + ")"
		}
		return "U," + hx(what) + "," + rest()
	}
}

// string literals of a template (oracle renderings of time.Format are provided for each)
func tmplStringLits(n parse.Node, acc map[string]bool) {
	switch x := n.(type) {
	case *parse.ListNode:
		if x != nil {
			for _, c := range x.Nodes {
				tmplStringLits(c, acc)
			}
		}
	case *parse.ActionNode:
		tmplStringLits(x.Pipe, acc)
	case *parse.IfNode:
		tmplStringLits(x.Pipe, acc)
		tmplStringLits(x.List, acc)
		tmplStringLits(x.ElseList, acc)
	case *parse.RangeNode:
		tmplStringLits(x.Pipe, acc)
		tmplStringLits(x.List, acc)
		tmplStringLits(x.ElseList, acc)
	case *parse.PipeNode:
		if x != nil {
			for _, c := range x.Cmds {
				tmplStringLits(c, acc)
			}
		}
	case *parse.CommandNode:
		for _, a := range x.Args {
			tmplStringLits(a, acc)
		}
	case *parse.StringNode:
		acc[x.Text] = true
	}
}

// ---------------------------------------------------------------------------------------------
// loading templates with the real code

var tmplApp *protocol.ApplicationContext

func tmplParseFile(name string) (*template.Template, error) {
	if tmplApp == nil {
		viper.Reset()
		tmplApp = &protocol.ApplicationContext{Logger: zap.NewNop()}
	}
	parseFunc := verifhook.TemplateParseFunc(tmplApp)
	t, err := parseFunc(filepath.Join(repoDir(), "config", name))
	if err != nil {
		return nil, err
	}
	return t.Templates()[0], nil
}

func tmplParseSource(src string) (*template.Template, error) {
	return template.New("notifier").Funcs(verifhook.HelperFunctionMap()).Parse(src)
}

// ---------------------------------------------------------------------------------------------
// data

type tOffset struct {
	nilp                bool
	off, order, ts, obs int64
	lag                 int64 // -1 = nil
}

type tPart struct {
	nilp          bool
	topic         string
	partition     int32
	owner, client string
	status        int
	start, end    tOffset
	curlag        uint64
	complete      uint32
}

type tData struct {
	cluster, group, id string
	start              int64
	extras             [][2]string
	st                 int
	complete           uint32
	total              int
	lag                uint64
	maxlag             tPart
	parts              []tPart
}

func (o tOffset) enc() string {
	if o.nilp {
		return "nil"
	}
	l := "-"
	if o.lag >= 0 {
		l = strconv.FormatInt(o.lag, 10)
	}
	return fmt.Sprintf("%d/%d/%d/%d/%s", o.off, o.order, o.ts, o.obs, l)
}

func decOffset(s string) tOffset {
	if s == "nil" {
		return tOffset{nilp: true}
	}
	f := strings.Split(s, "/")
	o := tOffset{lag: -1}
	o.off, _ = strconv.ParseInt(f[0], 10, 64)
	o.order, _ = strconv.ParseInt(f[1], 10, 64)
	o.ts, _ = strconv.ParseInt(f[2], 10, 64)
	o.obs, _ = strconv.ParseInt(f[3], 10, 64)
	if f[4] != "-" {
		o.lag, _ = strconv.ParseInt(f[4], 10, 64)
	}
	return o
}

func (p tPart) enc() string {
	if p.nilp {
		return "nil"
	}
	return fmt.Sprintf("%s:%d:%s:%s:%d:%s:%s:%d:%08x", hx(p.topic), p.partition, hx(p.owner), hx(p.client), p.status, p.start.enc(), p.end.enc(), p.curlag, p.complete)
}

func decPart(s string) tPart {
	if s == "nil" {
		return tPart{nilp: true}
	}
	f := strings.Split(s, ":")
	p := tPart{topic: unhx(f[0]), owner: unhx(f[2]), client: unhx(f[3])}
	x, _ := strconv.ParseInt(f[1], 10, 32)
	p.partition = int32(x)
	p.status, _ = strconv.Atoi(f[4])
	p.start, p.end = decOffset(f[5]), decOffset(f[6])
	p.curlag, _ = strconv.ParseUint(f[7], 10, 64)
	c, _ := strconv.ParseUint(f[8], 16, 32)
	p.complete = uint32(c)
	return p
}

func (o tOffset) real() *protocol.ConsumerOffset {
	if o.nilp {
		return nil
	}
	r := &protocol.ConsumerOffset{Offset: o.off, Order: o.order, Timestamp: o.ts, ObservedTimestamp: o.obs}
	if o.lag >= 0 {
		r.Lag = &protocol.Lag{Value: uint64(o.lag)}
	}
	return r
}

func (p tPart) real() *protocol.PartitionStatus {
	if p.nilp {
		return nil
	}
	return &protocol.PartitionStatus{Topic: p.topic, Partition: p.partition, Owner: p.owner, ClientID: p.client,
		Status: protocol.StatusConstant(p.status), Start: p.start.real(), End: p.end.real(), CurrentLag: p.curlag,
		Complete: math.Float32frombits(p.complete)}
}

func (d tData) encFields() string {
	ex := make([]string, len(d.extras))
	for i, kv := range d.extras {
		ex[i] = hx(kv[0]) + ":" + hx(kv[1])
	}
	exs := strings.Join(ex, ";")
	if exs == "" {
		exs = "-"
	}
	ps := make([]string, len(d.parts))
	for i, p := range d.parts {
		ps[i] = p.enc()
	}
	pss := strings.Join(ps, ";")
	if pss == "" {
		pss = "-"
	}
	return fmt.Sprintf("cluster=%s group=%s id=%s start=%d extras=%s st=%d complete=%08x total=%d lag=%d maxlag=%s parts=%s",
		hx(d.cluster), hx(d.group), hx(d.id), d.start, exs, d.st, d.complete, d.total, d.lag, d.maxlag.enc(), pss)
}

func kvFields(line string) map[string]string {
	m := map[string]string{}
	for _, tok := range strings.Split(line, " ") {
		if i := strings.IndexByte(tok, '='); i > 0 {
			m[tok[:i]] = tok[i+1:]
		}
	}
	return m
}

func decData(m map[string]string) tData {
	d := tData{cluster: unhx(m["cluster"]), group: unhx(m["group"]), id: unhx(m["id"])}
	d.start, _ = strconv.ParseInt(m["start"], 10, 64)
	if m["extras"] != "-" {
		for _, kv := range strings.Split(m["extras"], ";") {
			f := strings.Split(kv, ":")
			d.extras = append(d.extras, [2]string{unhx(f[0]), unhx(f[1])})
		}
	}
	d.st, _ = strconv.Atoi(m["st"])
	c, _ := strconv.ParseUint(m["complete"], 16, 32)
	d.complete = uint32(c)
	d.total, _ = strconv.Atoi(m["total"])
	d.lag, _ = strconv.ParseUint(m["lag"], 10, 64)
	d.maxlag = decPart(m["maxlag"])
	if m["parts"] != "-" {
		for _, p := range strings.Split(m["parts"], ";") {
			d.parts = append(d.parts, decPart(p))
		}
	}
	return d
}

func (d tData) status() *protocol.ConsumerGroupStatus {
	s := &protocol.ConsumerGroupStatus{Cluster: d.cluster, Group: d.group, Status: protocol.StatusConstant(d.st),
		Complete: math.Float32frombits(d.complete), TotalPartitions: d.total, TotalLag: d.lag, Maxlag: d.maxlag.real(),
		Partitions: make([]*protocol.PartitionStatus, len(d.parts))}
	for i, p := range d.parts {
		s.Partitions[i] = p.real()
	}
	return s
}

func (d tData) floats() []uint32 {
	seen := map[uint32]bool{d.complete: true}
	if !d.maxlag.nilp {
		seen[d.maxlag.complete] = true
	}
	for _, p := range d.parts {
		if !p.nilp {
			seen[p.complete] = true
		}
	}
	var out []uint32
	for b := range seen {
		out = append(out, b)
	}
	sort.Slice(out, func(i, j int) bool { return out[i] < out[j] })
	return out
}

// tmplParallel renders 8 variants of the data (group and topic names suffixed per lane) alone, then all at once from 8
// goroutines, 40 times each, and reports whether every concurrent rendering equals the one made alone.
func tmplParallel(t *template.Template, d tData, extras map[string]string, start time.Time) string {
	const lanes, rounds = 8, 40
	variants := make([]tData, lanes)
	refs := make([]string, lanes)
	for j := 0; j < lanes; j++ {
		v := d
		v.group = d.group + "-" + strconv.Itoa(j)
		v.parts = append([]tPart{}, d.parts...)
		for k := range v.parts {
			v.parts[k].topic += "-" + strconv.Itoa(j)
		}
		variants[j] = v
		out, err := verifhook.ExecuteTemplate(t, extras, v.status(), v.id, start)
		if err != nil {
			return "err"
		}
		refs[j] = out.String()
	}
	var wg sync.WaitGroup
	var bad int32
	for j := 0; j < lanes; j++ {
		wg.Add(1)
		go func(j int) {
			defer wg.Done()
			defer func() {
				if recover() != nil {
					atomic.AddInt32(&bad, 1)
				}
			}()
			for k := 0; k < rounds; k++ {
				out, err := verifhook.ExecuteTemplate(t, extras, variants[j].status(), variants[j].id, start)
				if err != nil || out.String() != refs[j] {
					atomic.AddInt32(&bad, 1)
					return
				}
			}
		}(j)
	}
	wg.Wait()
	if bad > 0 {
		return "differs"
	}
	return "same"
}

// tmplHelpers runs the two partition helpers of the notifier's template function map on the partition list of the
// case — through a template, as a user's template would — and prints what they returned, sorted.
var tmplHelperT *template.Template

func tmplHelpers(status *protocol.ConsumerGroupStatus, extras map[string]string, id string, start time.Time) string {
	if tmplHelperT == nil {
		t, err := tmplParseSource("{{topicsbystatus .Result.Partitions | jsonencoder}}\x00{{partitioncounts .Result.Partitions | jsonencoder}}")
		if err != nil {
			return "parse-error"
		}
		tmplHelperT = t
	}
	var out *bytes.Buffer
	var err error
	func() {
		defer func() {
			if rec := recover(); rec != nil {
				err = fmt.Errorf("panic: %v", rec)
			}
		}()
		out, err = verifhook.ExecuteTemplate(tmplHelperT, extras, status, id, start)
	}()
	if err != nil {
		return "err"
	}
	halves := strings.SplitN(out.String(), "\x00", 2)
	if len(halves) != 2 {
		return "bad-output"
	}
	var tbs map[string][]string
	var pc map[string]int
	if json.Unmarshal([]byte(halves[0]), &tbs) != nil || json.Unmarshal([]byte(halves[1]), &pc) != nil {
		return "bad-json"
	}
	var es []string
	for st, topics := range tbs {
		hs := make([]string, len(topics))
		for i, t := range topics {
			hs[i] = hx(t)
		}
		sort.Strings(hs)
		es = append(es, st+":"+strings.Join(hs, ","))
	}
	sort.Strings(es)
	a := strings.Join(es, ";")
	if a == "" {
		a = "-"
	}
	var cs []string
	for k, n := range pc {
		cs = append(cs, fmt.Sprintf("%s:%d", k, n))
	}
	sort.Strings(cs)
	return a + "|" + strings.Join(cs, ",")
}

// tmplFormatTimestamp runs the `formattimestamp` helper (through a template) on millisecond timestamps taken from the
// case and a few layouts, and compares each rendering with the documented meaning — the instant <ts> milliseconds after
// the epoch, in local time, in the given layout (time.Unix(0, ts*1e6).Format(layout)).  A TEST of the implementation
// against that oracle, made in the harness: the model only says "same".
func tmplFormatTimestamp(d tData, extras map[string]string, status *protocol.ConsumerGroupStatus, start time.Time) string {
	stamps := []int64{0, d.start / 1000000, 1500000000123, -1, 86399999}
	if !d.maxlag.nilp && !d.maxlag.end.nilp {
		stamps = append(stamps, d.maxlag.end.ts)
	}
	layouts := []string{"2006-01-02 15:04:05", "15:04:05.000", time.RFC3339Nano, "Jan _2 06 MST"}
	for i, ts := range stamps {
		if ts > 9000000000000 || ts < -9000000000000 {
			continue // ts*1e6 must fit an int64 (the helper multiplies without a check; such stamps are not ms timestamps)
		}
		layout := layouts[i%len(layouts)]
		t, err := tmplParseSource(fmt.Sprintf("{{formattimestamp %d %q}}", ts, layout))
		if err != nil {
			return "parse-error"
		}
		var out *bytes.Buffer
		func() {
			defer func() {
				if rec := recover(); rec != nil {
					err = fmt.Errorf("panic: %v", rec)
				}
			}()
			out, err = verifhook.ExecuteTemplate(t, extras, status, d.id, start)
		}()
		if err != nil {
			return "err"
		}
		if out.String() != time.Unix(0, ts*int64(time.Millisecond)).Format(layout) {
			return "differs"
		}
	}
	return "same"
}

// ---------------------------------------------------------------------------------------------
// run

func runTmpl(r *runner) {
	for {
		line, ok := r.next()
		if !ok {
			return
		}
		if strings.HasPrefix(line, "#") {
			r.reply("%s", line)
			r.resolve("%s", line)
			continue
		}
		if !strings.HasPrefix(line, "T x ") {
			r.resolve("%s", line)
			r.reply("bad-op")
			continue
		}
		m := kvFields(line)
		d := decData(m)
		var t *template.Template
		var err error
		gen := "na"
		if strings.HasPrefix(m["tmpl"], "@") {
			t, err = tmplParseFile(m["tmpl"][1:])
			gen = "same"
		} else {
			t, err = tmplParseSource(unhx(m["tmpl"]))
		}
		if err != nil {
			r.resolve("%s ser=- fmt=- f32=- pjson=-", line)
			r.reply("r=parse-error gen=%s", gen)
			continue
		}
		p := tmplPrinter{}
		ser := p.list(t.Tree.Root, 0)
		lits := map[string]bool{}
		tmplStringLits(t.Tree.Root, lits)
		start := time.Unix(0, d.start).UTC()
		var fm []string
		for l := range lits {
			fm = append(fm, hx(l)+":"+hx(start.Format(l)))
		}
		sort.Strings(fm)
		fms := strings.Join(fm, ";")
		if fms == "" {
			fms = "-"
		}
		var fl []string
		for _, b := range d.floats() {
			fl = append(fl, fmt.Sprintf("%08x:%s", b, hx(fmt.Sprint(math.Float32frombits(b)))))
		}
		status := d.status()
		var pj []byte
		func() {
			defer func() { _ = recover() }() // a panicking marshaller is the real execution's finding, not the oracle's
			pj, _ = json.Marshal(status.Partitions)
		}()
		r.resolve("%s ser=%s fmt=%s f32=%s pjson=%s", line, ser, fms, strings.Join(fl, ";"), hx(string(pj)))
		extras := map[string]string{}
		for _, kv := range d.extras {
			extras[kv[0]] = kv[1]
		}
		var out *bytes.Buffer
		func() {
			defer func() {
				if rec := recover(); rec != nil {
					err = fmt.Errorf("panic: %v", rec)
				}
			}()
			out, err = verifhook.ExecuteTemplate(t, extras, status, d.id, start)
		}()
		hlp := tmplHelpers(status, extras, d.id, start) + " fts=" + tmplFormatTimestamp(d, extras, status, start)
		if err != nil {
			r.reply("r=err gen=%s hlp=%s", gen, hlp)
			continue
		}
		jv := "invalid"
		if json.Valid(out.Bytes()) {
			jv = "valid"
		}
		par := ""
		if m["par"] == "1" {
			// rendering is a function of the data: renderings running at the same time (the notifier renders each
			// evaluation in its own goroutine) must each equal the rendering of their own data done alone
			par = " par=" + tmplParallel(t, d, extras, start)
		}
		r.reply("r=ok out=%s json=%s gen=%s%s hlp=%s", hx(out.String()), jv, gen, par, hlp)
	}
}

// ---------------------------------------------------------------------------------------------
// generation

var tmplSafeNames = []string{"c0", "prod-kafka_1", "group.A", "mirror maker", "Ünï-cödé", "a/b:c", "", "0"}
var tmplUnsafeNames = []string{"quo\"te", "back\\slash", "new\nline", "tab\there", "ctl\x01"}

func genName(g *gen, safe bool) string {
	if safe || g.chance(2, 3) {
		return tmplSafeNames[g.intn(len(tmplSafeNames))]
	}
	return tmplUnsafeNames[g.intn(len(tmplUnsafeNames))]
}

func genOffset(g *gen) tOffset {
	o := tOffset{off: g.pick(0, 1, 100, 5000, math.MaxInt64, -1), order: g.pick(0, 7, 123456), ts: g.pick(0, 1500000000000, 1, -1), obs: g.pick(0, 1700000000000), lag: -1}
	if g.chance(3, 4) {
		o.lag = g.pick(0, 1, 42, math.MaxInt64)
	}
	return o
}

var tmplFloats = []float32{0, 1, 0.5, 0.25, float32(1.0 / 3.0), 0.1, 0.9, float32(1.0 / 1048576.0), 0.0001, 0.75, float32(2.0 / 3.0),
	1e-7, 1e-10, 1e21, 1e6, 123456789, math.MaxFloat32, math.SmallestNonzeroFloat32, -0.5, float32(math.Copysign(0, -1)), 1e20, 2.5e-5}

// not JSON numbers under %v: only for data that is not "JSON-safe"
var tmplNonFinite = []float32{float32(math.NaN()), float32(math.Inf(1)), float32(math.Inf(-1))}

func genFloat(g *gen, safe bool) uint32 {
	if !safe && g.chance(1, 8) {
		return math.Float32bits(tmplNonFinite[g.intn(len(tmplNonFinite))])
	}
	return math.Float32bits(tmplFloats[g.intn(len(tmplFloats))])
}

func genPart(g *gen, safe, inv bool, problem bool) tPart {
	p := tPart{topic: genName(g, safe), partition: int32(g.pick(0, 1, 7, 1023, math.MaxInt32)), owner: genName(g, safe), client: genName(g, safe),
		curlag: uint64(g.pick(0, 1, 17, 1000000, math.MaxInt64)), complete: genFloat(g, safe)}
	if g.chance(1, 30) {
		p.curlag = math.MaxUint64
	}
	if problem {
		p.status = int(g.pick(2, 4, 5, 6))
		if g.chance(1, 20) {
			p.status = int(g.pick(3, 0, 7, -1, 99)) // values a partition never has: any status value must render
		}
	} else {
		p.status = 1
	}
	p.start, p.end = genOffset(g), genOffset(g)
	if !inv || !problem {
		// outside the status invariant (or for an OK partition, which may have no commits at all)
		if g.chance(1, 3) {
			p.start = tOffset{nilp: true}
		}
		if g.chance(1, 3) {
			p.end = tOffset{nilp: true}
		}
	}
	return p
}

func genData(g *gen, safe, inv bool) tData {
	d := tData{cluster: genName(g, safe), group: genName(g, safe), id: g.pickS("6ba7b810-9dad-11d1-80b4-00c04fd430c8", "", "x"),
		start: g.pick(0, 1500000000123456789, 1700000000000000000, -1, 253402300799000000000>>6),
		st:    int(g.pick(0, 1, 2, 3, 3, 2, 4, 5, 6, 7, -1, 1000)), complete: genFloat(g, safe),
		total: int(g.pick(0, 1, 3, 12, 100000)), lag: uint64(g.pick(0, 1, 999, math.MaxInt64))}
	if g.chance(1, 30) {
		d.lag = math.MaxUint64
	}
	ne := g.intn(4)
	keys := []string{"api_key", "app", "tier", "other"}
	for i := 0; i < ne; i++ {
		d.extras = append(d.extras, [2]string{keys[(i+g.intn(2))%4], genName(g, safe)})
	}
	// de-duplicate keys (a Go map)
	seen := map[string]bool{}
	var ex [][2]string
	for _, kv := range d.extras {
		if !seen[kv[0]] {
			seen[kv[0]] = true
			ex = append(ex, kv)
		}
	}
	d.extras = ex
	np := int(g.pick(0, 0, 1, 1, 2, 3, 6))
	for i := 0; i < np; i++ {
		if !inv && g.chance(1, 12) {
			d.parts = append(d.parts, tPart{nilp: true})
			continue
		}
		d.parts = append(d.parts, genPart(g, safe, inv, true))
	}
	switch g.intn(4) {
	case 0:
		d.maxlag = tPart{nilp: true}
	case 1:
		d.maxlag = genPart(g, safe, inv, false) // an OK partition can be the max-lag partition
	default:
		if np > 0 && !d.parts[0].nilp {
			d.maxlag = d.parts[g.intn(np)]
			if d.maxlag.nilp {
				d.maxlag = genPart(g, safe, inv, true)
			}
		} else {
			d.maxlag = genPart(g, safe, inv, true)
		}
	}
	return d
}

// random templates over the fragment the model supports, mostly well-typed, with deliberate faults
type tmplGen struct{ g *gen }

var rootScalars = []string{".Cluster", ".Group", ".ID", ".Result.Cluster", ".Result.Group", ".Result.Status", ".Result.Complete", ".Result.TotalPartitions",
	".Result.TotalLag", ".Result.Status.String", ".Result.Maxlag.Topic", ".Result.Maxlag.CurrentLag", ".Result.Maxlag.Start.Offset", ".Result.Maxlag.End.Lag",
	".Result.Maxlag.Status.String", ".Extras.app", ".Extras.missing", ".Result.Maxlag.Partition", ".Result.Maxlag.Complete"}
var partScalars = []string{".Topic", ".Partition", ".Owner", ".ClientID", ".Status", ".Status.String", ".Start.Offset", ".Start.Timestamp", ".Start.Order",
	".Start.Lag", ".Start.Lag.Value", ".End.Offset", ".End.Timestamp", ".End.Lag", ".End.Lag.Value", ".CurrentLag", ".Complete", ".Start.ObservedTimestamp"}
var faultyPaths = []string{".Id", ".Result.Foo", ".Cluster.X", ".Result.Status.Name", ".Nope.Deeper", ".Result.TotalLag.Value", ".Result.Partitions.Topic"}

func (t tmplGen) action(inRange bool) string {
	g := t.g
	scal := rootScalars
	if inRange {
		scal = partScalars
	}
	switch g.intn(16) {
	case 0, 1, 2, 3, 4:
		return "{{" + scal[g.intn(len(scal))] + "}}"
	case 5:
		if inRange {
			return "{{.Start.Lag}}"
		}
		return `{{.Start.Format "` + g.pickS("2006-01-02T15:04:05Z07:00", "Jan 02, 2006 15:04:05 UTC", "15:04", "") + `"}}`
	case 6:
		if inRange {
			return "{{len .Topic}}"
		}
		return "{{" + g.pickS("len .Result.Partitions", "len .Extras", "len .Cluster", ".Result.Partitions | len", "len .Result.TotalLag") + "}}"
	case 7:
		if inRange {
			return `{{eq .Status ` + strconv.Itoa(g.intn(7)) + `}}`
		}
		return "{{" + g.pickS(`index .Extras "api_key"`, `index .Extras "nope"`, `"app" | index .Extras`, `index .Cluster "x"`, `index .Extras "a" "b"`) + "}}"
	case 8:
		if inRange {
			return "{{maxlag .}}"
		}
		return "{{" + g.pickS("maxlag .Result.Maxlag", ".Result.Maxlag | maxlag", "maxlag .Result") + "}}"
	case 9:
		if inRange {
			return "{{add .Partition 1}}"
		}
		return "{{" + g.pickS("add .Result.TotalPartitions 1", "minus .Result.TotalPartitions 7", "multiply .Result.TotalPartitions 3", "divide .Result.TotalPartitions 2",
			"divide 7 .Result.TotalPartitions", "add .Result.TotalLag 1", "add 9223372036854775807 .Result.TotalPartitions", "divide -7 2", "add 1") + "}}"
	case 10:
		if inRange {
			return "{{.Start.Lag}}"
		}
		return "{{" + g.pickS(".Result.Partitions | jsonencoder", "jsonencoder .Result.Partitions", "jsonencoder .Result.TotalLag", "jsonencoder .Result.TotalPartitions") + "}}"
	case 11:
		return "{{" + faultyPaths[g.intn(len(faultyPaths))] + "}}"
	case 12:
		return "{{" + g.pickS(`"lit"`, `42`, `-3`, `.Cluster "arg"`, `.Result.Status.String 1`, `.Start.Format`, `.Start.Format 5`) + "}}"
	case 13:
		return "{{" + g.pickS(`eq .Result.Status 2`, `eq .Cluster "c0"`, `eq .Result.TotalLag 0`, `eq .Result.TotalPartitions .Result.TotalLag`, `eq .Cluster 1`, `eq .Result.Status .Result.Maxlag.Status`) + "}}"
	default:
		return "{{" + scal[g.intn(len(scal))] + "}}"
	}
}

func (t tmplGen) cond(inRange bool) string {
	g := t.g
	if inRange {
		return g.pickS("eq .Status 2", ".Start.Lag", ".Owner", ".Start", ".CurrentLag", "eq .Topic \"c0\"", ".Complete")
	}
	return g.pickS("eq .Result.Status 2", ".Result.Maxlag", ".Extras", ".Result.Partitions", ".Cluster", ".Result.TotalLag", ".Extras.app", ".Result.Maxlag.Start",
		".Result.Complete", "index .Extras \"tier\"", ".Result.Maxlag.Start.Lag", ".Nope")
}

func (t tmplGen) body(depth int, inRange bool) string {
	g := t.g
	var b strings.Builder
	n := 1 + g.intn(4)
	for i := 0; i < n; i++ {
		switch k := g.intn(10); {
		case k < 3:
			b.WriteString(g.pickS("text ", "\"k\":", "\n", "{ ", "}", "[", ","))
		case k < 7:
			b.WriteString(t.action(inRange))
		case k < 8 && depth < 2:
			b.WriteString("{{if " + t.cond(inRange) + "}}" + t.body(depth+1, inRange))
			if g.chance(1, 2) {
				b.WriteString("{{else}}" + t.body(depth+1, inRange))
			}
			b.WriteString("{{end}}")
		case k < 10 && depth < 2 && !inRange:
			b.WriteString("{{range " + g.pickS(".Result.Partitions", ".Result.Partitions", ".Result.Partitions", ".Result.Cluster", ".Result.Maxlag") + "}}" + t.body(depth+1, true))
			if g.chance(1, 3) {
				b.WriteString("{{else}}none")
			}
			b.WriteString("{{end}}")
		default:
			b.WriteString(t.action(inRange))
		}
	}
	return b.String()
}

func genTmpl(g *gen) {
	n := 300 * g.scale
	for i := 0; i < n; i++ {
		g.newCase()
		// every shipped template on a status inside the invariant with JSON-safe names
		for k, name := range shippedTemplates {
			d := genData(g, true, true)
			par := ""
			if (i+k)%8 == 0 {
				par = " par=1" // also render variants of this data concurrently
			}
			g.emit("T x tmpl=@%s safe=1 inv=1%s %s", name, par, d.encFields())
		}
		// shipped templates on arbitrary data (names that need escaping, statuses outside the invariant)
		name := shippedTemplates[g.intn(len(shippedTemplates))]
		safe, inv := g.chance(1, 2), g.chance(1, 2)
		g.emit("T x tmpl=@%s safe=%d inv=%d %s", name, b2i(safe), b2i(inv), genData(g, safe, inv).encFields())
		// generated templates (validation of the model's evaluator against text/template)
		for k := 0; k < 6; k++ {
			src := tmplGen{g}.body(0, false)
			inv := g.chance(2, 3)
			g.emit("T x tmpl=%s safe=0 inv=%d %s", hx(src), b2i(inv), genData(g, false, inv).encFields())
		}
	}
}

func b2i(b bool) int {
	if b {
		return 1
	}
	return 0
}
