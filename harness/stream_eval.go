package main

import (
	"fmt"
	"math"
	"strconv"
	"strings"
	"time"

	"github.com/linkedin/Burrow/core/protocol"
	"github.com/linkedin/Burrow/core/verifhook"
)

// Stream "eval": direct calls of calculatePartitionStatus / evaluatePartitionStatus (C03).
//
//	E calc <now> <allowed> <cur> <w> <bo>            w = off:ts:lag;…   lag "-" = nil    bo = a,b,… or "-"
//	E part <minbits> <allowed> <cur> <offs> <bo>     offs entries "nil" or off:relts:lag, relts in ms relative to now*1000
//	   resolved:  E part <now> <minbits> <allowed> <cur> <offs abs> <bo>

func init() { register(&stream{name: "eval", gen: genEval, run: runEval}) }

type evCommit struct {
	off, ts int64
	lag     int64 // -1 = nil
	isNil   bool
}

func fmtCommits(cs []evCommit) string {
	if len(cs) == 0 {
		return "-"
	}
	parts := make([]string, len(cs))
	for i, c := range cs {
		if c.isNil {
			parts[i] = "nil"
			continue
		}
		l := "-"
		if c.lag >= 0 {
			l = strconv.FormatInt(c.lag, 10)
		}
		parts[i] = fmt.Sprintf("%d:%d:%s", c.off, c.ts, l)
	}
	return strings.Join(parts, ";")
}

func fmtInts(xs []int64) string {
	if len(xs) == 0 {
		return "-"
	}
	parts := make([]string, len(xs))
	for i, x := range xs {
		parts[i] = strconv.FormatInt(x, 10)
	}
	return strings.Join(parts, ",")
}

func genWindow(g *gen, n int, base int64) []evCommit {
	// small alphabets so equalities, rewinds, stalls and lag ties are frequent
	cs := make([]evCommit, n)
	style := g.intn(6)
	off := base + int64(g.intn(4))
	ts := int64(g.intn(3)) * 1000
	subsec := g.chance(1, 2) // commit timestamps are milliseconds: half the windows are not on whole seconds
	if subsec {
		ts += g.pick(0, 1, 100, 500, 900, 999)
	}
	for i := 0; i < n; i++ {
		switch style {
		case 0: // free
			off = base + int64(g.intn(4))
		case 1: // stalled
		case 2: // advancing
			off += int64(g.intn(3))
		case 3: // mostly advancing with one rewind
			if g.chance(1, 3) {
				off -= int64(1 + g.intn(3))
			} else {
				off += int64(g.intn(3))
			}
		default:
			off += int64(g.intn(3)) - 1
		}
		ts += int64(g.intn(3)) * 1000
		if subsec {
			ts += g.pick(0, 0, 1, 100, 500, 900, 999)
		}
		lag := int64(g.intn(5)) - 1 // -1 = nil
		cs[i] = evCommit{off: off, ts: ts, lag: lag}
	}
	return cs
}

func genEval(g *gen) {
	n := 6000 * g.scale
	for i := 0; i < n; i++ {
		g.newCase()
		wl := 1 + g.intn(6)
		base := g.pick(0, 0, 100, math.MaxInt64-10, -5)
		w := genWindow(g, wl, base)
		nb := g.intn(5)
		bo := make([]int64, nb)
		last := w[len(w)-1]
		for j := range bo {
			bo[j] = last.off + int64(g.intn(5)) - 2
		}
		allowed := int64(g.intn(4))
		cur := int64(g.intn(5))
		if g.chance(1, 20) {
			cur = g.pick(1<<62, math.MaxInt64)
		}
		// now around the stop boundary: now*1000 - last.ts > last.ts - first.ts
		span := last.ts - w[0].ts
		nowMs := last.ts + span + g.pick(-2000, -1000, -1, 0, 1, 999, 1000, 1001, 2000, 50000)
		now := nowMs / 1000
		if g.chance(1, 3) {
			now++ // the clock is in whole seconds: approach the boundary from above as well as from below
		}
		if g.chance(1, 2) {
			g.emit("E calc %d %d %d %s %s", now, allowed, cur, fmtCommits(w), fmtInts(bo))
			continue
		}
		// partition: nil prefix + window (well-formed), sometimes all-nil / empty / hole (ill-formed)
		var offs []evCommit
		shape := g.intn(12)
		switch {
		case shape == 0:
			offs = nil
		case shape == 1:
			for k := 0; k < 1+g.intn(3); k++ {
				offs = append(offs, evCommit{isNil: true})
			}
		default:
			for k := 0; k < g.intn(4); k++ {
				offs = append(offs, evCommit{isNil: true})
			}
			offs = append(offs, w...)
		}
		// timestamps of a partition op are relative to now (ms): shift so that `now` is 0
		for k := range offs {
			if !offs[k].isNil {
				offs[k].ts -= now * 1000
			}
		}
		if shape <= 1 && !g.chance(1, 4) {
			cur = 0 // storage never reports lag for a window without a newest commit
		}
		minc := []float32{0, 0.1, 0.25, float32(1.0 / 3.0), 0.5, 0.6, 0.75, 0.9, 1.0, 1.5}[g.intn(10)]
		g.emit("E part %08x %d %d %s %s", math.Float32bits(minc), allowed, cur, fmtCommits(offs), fmtInts(bo))
	}
}

func parseCommits(s string) []*protocol.ConsumerOffset {
	if s == "-" {
		return []*protocol.ConsumerOffset{}
	}
	var out []*protocol.ConsumerOffset
	for _, p := range strings.Split(s, ";") {
		if p == "nil" {
			out = append(out, nil)
			continue
		}
		f := strings.Split(p, ":")
		off, _ := strconv.ParseInt(f[0], 10, 64)
		ts, _ := strconv.ParseInt(f[1], 10, 64)
		c := &protocol.ConsumerOffset{Offset: off, Timestamp: ts}
		if f[2] != "-" {
			l, _ := strconv.ParseUint(f[2], 10, 64)
			c.Lag = &protocol.Lag{Value: l}
		}
		out = append(out, c)
	}
	return out
}

func parseInts(s string) []int64 {
	if s == "-" {
		return []int64{}
	}
	var out []int64
	for _, p := range strings.Split(s, ",") {
		v, _ := strconv.ParseInt(p, 10, 64)
		out = append(out, v)
	}
	return out
}

func showOffset(c *protocol.ConsumerOffset) string {
	if c == nil {
		return "nil"
	}
	l := "-"
	if c.Lag != nil {
		l = strconv.FormatUint(c.Lag.Value, 10)
	}
	return fmt.Sprintf("%d:%d:%s", c.Offset, c.Timestamp, l)
}

func guard(f func() string) (res string) {
	defer func() {
		if r := recover(); r != nil {
			res = "panic"
		}
	}()
	return f()
}

func runEval(r *runner) {
	for {
		line, ok := r.next()
		if !ok {
			return
		}
		if strings.HasPrefix(line, "#") {
			r.resolve("%s", line)
			r.reply("%s", line)
			continue
		}
		f := strings.Split(line, " ")
		switch f[1] {
		case "calc":
			now, _ := strconv.ParseInt(f[2], 10, 64)
			allowed, _ := strconv.ParseUint(f[3], 10, 64)
			cur, _ := strconv.ParseUint(f[4], 10, 64)
			w := parseCommits(f[5])
			bo := parseInts(f[6])
			r.resolve("%s", line)
			r.reply("%s", guard(func() string {
				return fmt.Sprintf("status=%d", int(verifhook.CalculatePartitionStatus(w, bo, cur, now, allowed)))
			}))
		case "part":
			bits, _ := strconv.ParseUint(f[2], 16, 32)
			minc := math.Float32frombits(uint32(bits))
			allowed, _ := strconv.ParseUint(f[3], 10, 64)
			cur, _ := strconv.ParseUint(f[4], 10, 64)
			bo := parseInts(f[6])
			// sample-and-retry: the op is evaluated with the clock second that the code saw
			for {
				now := time.Now().Unix()
				offs := parseCommits(f[5])
				for _, c := range offs {
					if c != nil {
						c.Timestamp += now * 1000
					}
				}
				p := &protocol.ConsumerPartition{Offsets: offs, BrokerOffsets: bo, CurrentLag: cur}
				res := guard(func() string {
					st := verifhook.EvaluatePartitionStatus(p, minc, allowed)
					return fmt.Sprintf("status=%d cur=%d complete=%08x start=%s end=%s", int(st.Status), st.CurrentLag,
						math.Float32bits(st.Complete), showOffset(st.Start), showOffset(st.End))
				})
				if time.Now().Unix() != now {
					continue
				}
				abs := make([]string, len(offs))
				for i, c := range offs {
					abs[i] = showOffset(c)
				}
				as := "-"
				if len(abs) > 0 {
					as = strings.Join(abs, ";")
				}
				r.resolve("E part %d %s %d %d %s %s", now, f[2], allowed, cur, as, f[6])
				r.reply("%s", res)
				break
			}
		default:
			r.resolve("%s", line)
			r.reply("bad-op")
		}
	}
}
